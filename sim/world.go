package sim

import (
	"crypto/sha256"
	"encoding/hex"
	"fmt"
	"reflect"
	"strings"
	"time"

	altsim "digsim/altsim"

	"go.uber.org/dig"
)

type EvKind int

const (
	EvAPICall EvKind = iota
	EvAPIRet
	EvEnter
	EvExit
	EvCallback
	EvNested // re-entrant user code: Exec = verdict of the nested Invoke, or -2 when the nested probe function ran
)

func (k EvKind) String() string {
	return [...]string{"api-call", "api-return", "fn-enter", "fn-exit", "callback", "nested"}[k]
}

type ExitKind int

const (
	OutOK ExitKind = iota
	OutErr
	OutPanic
)

func (o ExitKind) String() string { return [...]string{"ok", "err", "panic"}[o] }

// ArgObs is what a stub observed for one leaf parameter.
type ArgObs struct {
	Serials []int64 // one for a single value (none if zero), all elements for a group
	Zero    bool    // single value: nil pointer / nil interface
	Bad     string  // not a token the world minted / pointer mismatch / wrong dynamic type
}

type Event struct {
	Seq    int
	Kind   EvKind
	Op     int
	Fn     int
	Exec   int
	SimT   int64
	Args   []ArgObs  // EvEnter
	Out    ExitKind  // EvExit
	Minted [][]int64 // EvExit: serials per leaf result
	CB     *CBObs    // EvCallback
	Depth  int       // number of stubs open when logged
	Nest   int       // > 0: logged inside a nested request issued by user code
}

// CBObs is what a dig callback reported.
type CBObs struct {
	Name      string
	ErrNil    bool
	RootInj   [2]int // (fn, exec) of the injected error that is RootCause, or (-1,-1)
	IsPanic   bool
	PanicInj  [2]int
	RuntimeNs int64
	Panicked  bool // the callback itself panics right after reporting (callback-panic fault)
}

type TokInfo struct {
	Serial int64
	Fn     int
	Exec   int
	Leaf   int
	Elem   int
	Poison bool
	Ptr    interface{}
	Inputs []int64 // decorators: serials received for the same key
}

// ErrLike is an interface type that embeds error: a result declared with it is
// an error result for dig just like one declared as error.
type ErrLike interface {
	error
	Injected() bool
}

var errLikeType = reflect.TypeOf((*ErrLike)(nil)).Elem()

func (e *InjErr) Injected() bool { return true }

// InjErr is the error value returned by a stub under an err fault.
type InjErr struct{ Fn, Exec int }

func (e *InjErr) Error() string { return fmt.Sprintf("injected error fn=%d exec=%d", e.Fn, e.Exec) }

// PanicVal / PanicErr / panic strings are the values stubs panic with.
type PanicVal struct{ Fn, Exec int }
type PanicErr struct{ Fn, Exec int }

func (e *PanicErr) Error() string { return fmt.Sprintf("injected panic fn=%d exec=%d", e.Fn, e.Exec) }

func panicString(fn, exec int) string {
	return fmt.Sprintf("digsim-injected-panic fn=%d exec=%d", fn, exec)
}

// PanicWrap is an error-typed panic value that wraps an error originating in
// dig (what `if err := c.Invoke(...); err != nil { panic(err) }` in user code
// produces): the panic must still surface as a PanicError, not as whatever is
// found by unwrapping the panic value.
type PanicWrap struct {
	Fn, Exec int
	Inner    error
}

func (e *PanicWrap) Error() string {
	return fmt.Sprintf("injected panic fn=%d exec=%d: %v", e.Fn, e.Exec, e.Inner)
}
func (e *PanicWrap) Unwrap() error { return e.Inner }

// aDigError is a genuine dig-originated error value (missing type).
var aDigError = func() error {
	return dig.New().Invoke(func(*PanicWrap) {})
}()

// injectedPanic recognises a panic value produced by a stub.
func injectedPanic(p interface{}) (fn, exec int, ok bool) {
	switch v := p.(type) {
	case PanicVal:
		return v.Fn, v.Exec, true
	case *PanicErr:
		return v.Fn, v.Exec, true
	case *PanicWrap:
		return v.Fn, v.Exec, true
	case PanicCB:
		return v.Fn, v.Exec, true
	case string:
		if _, err := fmt.Sscanf(v, "digsim-injected-panic fn=%d exec=%d", &fn, &exec); err == nil {
			return fn, exec, true
		}
	}
	return -1, -1, false
}

// World is the simulated environment of one container tree: it implements
// every user function, owns the clock and the shuffle seeds and keeps the log.
type World struct {
	H       *History
	C       *dig.Container
	Scopes  []*dig.Scope // index 0: root scope
	advance func(time.Duration)
	SimT    int64

	Log       []Event
	CurOp     int
	Execs     []int // executions started per function
	Open      []int // functions whose body is executing (stack)
	nest      int   // depth of nested requests issued by user code
	Tokens    []TokInfo
	errs      map[[2]int]*InjErr
	faults    map[int][]Fault
	fnVals    []interface{}
	fnOK      []bool
	catBind   map[int]*Func
	lastPInfo *dig.ProvideInfo // Info struct filled by the latest accepted Provide (see Func.ReuseInfo)

	FaultsFired [5]int
	HomeOf      map[int]int               // fn id -> index of the scope it was provided to (set by the runner on accepted Provide)
	NestedProv  []NestedProv              // registrations issued by user code from inside an Invoke
	Online      func(w *World, ev *Event) // optional hook run at fn-enter
}

func NewWorld(h *History) *World {
	catInit()
	w := &World{H: h, Execs: make([]int, len(h.Funcs)), errs: map[[2]int]*InjErr{}, faults: map[int][]Fault{},
		fnVals: make([]interface{}, len(h.Funcs)), fnOK: make([]bool, len(h.Funcs))}
	for _, f := range h.Faults {
		w.faults[f.Fn] = append(w.faults[f.Fn], f)
	}
	clockOpt, adv := dig.VerifMockClock()
	w.advance = adv
	opts := []dig.Option{clockOpt}
	if h.Cfg.Recover {
		opts = append(opts, dig.RecoverFromPanics())
	}
	if h.Cfg.Defer {
		opts = append(opts, dig.DeferAcyclicVerification())
	}
	if h.Cfg.OptNoise {
		opts = append(opts, dig.DryRun(!h.Cfg.DryRun), dig.DryRun(h.Cfg.DryRun))
	} else if h.Cfg.DryRun {
		opts = append(opts, dig.DryRun(true))
	}
	curValMask, curAltMask = h.Cfg.ValMask, h.Cfg.AltMask
	w.C = dig.New(opts...)
	root := dig.VerifRootScope(w.C)
	dig.VerifSeedRand(root, mix64(h.Cfg.ShuffleSeed, 0))
	w.Scopes = []*dig.Scope{root}
	catWorld = w
	return w
}

func mix64(a, b int64) int64 {
	x := uint64(a)*0x9E3779B97F4A7C15 + uint64(b) + 0x632BE59BD9B4E019
	x ^= x >> 30
	x *= 0xBF58476D1CE4E5B9
	x ^= x >> 27
	x *= 0x94D049BB133111EB
	x ^= x >> 31
	return int64(x)
}

func (w *World) emit(ev Event) *Event {
	ev.Seq = len(w.Log)
	ev.Op = w.CurOp
	ev.SimT = w.SimT
	ev.Depth = len(w.Open)
	ev.Nest = w.nest
	w.Log = append(w.Log, ev)
	return &w.Log[len(w.Log)-1]
}

func (w *World) faultFor(fn, exec int) FaultKind {
	for _, f := range w.faults[fn] {
		if f.Kind != FaultCBPanic && exec >= f.From && (f.To < 0 || exec < f.To) {
			return f.Kind
		}
	}
	return FaultNone
}

func (w *World) cbFaultFor(fn, exec int) bool {
	for _, f := range w.faults[fn] {
		if f.Kind == FaultCBPanic && exec >= f.From && (f.To < 0 || exec < f.To) {
			return true
		}
	}
	return false
}

// PanicCB is the value a callback panics with under a callback-panic fault.
type PanicCB struct{ Fn, Exec int }

func (w *World) injErr(fn, exec int) *InjErr {
	k := [2]int{fn, exec}
	if e, ok := w.errs[k]; ok {
		return e
	}
	e := &InjErr{fn, exec}
	w.errs[k] = e
	return e
}

// ---------------------------------------------------------------- types

var (
	inType  = reflect.TypeOf(dig.In{})
	outType = reflect.TypeOf(dig.Out{})
	errType = reflect.TypeOf((*error)(nil)).Elem()
	varType = reflect.TypeOf([]string(nil))
)

func valType(t int) reflect.Type {
	if IsPlainT(t) {
		return vTypes[t-TPlain]
	}
	if IsSliceT(t) {
		return reflect.SliceOf(valType(t - TSlice))
	}
	if IsIface(t) {
		return iTypes[t-TIface]
	}
	if isVal(t) {
		return vTypes[t]
	}
	if isAlt(t) {
		return altsim.KTypes[altIndex(t)]
	}
	return kTypes[t]
}

func paramTag(p Param) reflect.StructTag {
	var parts []string
	if p.Kind == PGroup {
		g := p.Group
		if p.Soft {
			g += ",soft"
		}
		parts = append(parts, fmt.Sprintf(`group:"%s"`, g))
	} else {
		if p.Name != "" {
			parts = append(parts, fmt.Sprintf(`name:"%s"`, p.Name))
		}
		if p.Opt {
			parts = append(parts, `optional:"true"`)
		}
	}
	return reflect.StructTag(strings.Join(parts, " "))
}

func paramType(p Param, positional bool) reflect.Type {
	switch p.Kind {
	case PSingle:
		return valType(p.T)
	case PGroup:
		if p.NamedSlice && !IsIface(p.T) && !isVal(p.T) && !isAlt(p.T) {
			if p.NamedAlt {
				return ktTypes[p.T]
			}
			return ksTypes[p.T]
		}
		return reflect.SliceOf(valType(p.T))
	}
	fields := []reflect.StructField{{Name: "In", Type: inType, Anonymous: true}}
	for i, f := range p.Fields {
		sf := reflect.StructField{
			Name: fmt.Sprintf("F%d", i),
			Type: paramType(f, false),
			Tag:  paramTag(f),
		}
		if f.Kind == PObj && f.Embed {
			sf.Name, sf.Anonymous = fmt.Sprintf("E%d", i), true
		}
		fields = append(fields, sf)
	}
	return reflect.StructOf(fields)
}

func resultTag(r Result) reflect.StructTag {
	if r.Kind == RGroup {
		g := r.Group
		if r.Flatten {
			g += ",flatten"
		}
		return reflect.StructTag(fmt.Sprintf(`group:"%s"`, g))
	}
	if r.Kind == RSingle && r.Name != "" {
		return reflect.StructTag(fmt.Sprintf(`name:"%s"`, r.Name))
	}
	return ""
}

// decGroup marks results of decorators: a decorated group is returned as the
// whole slice.
func resultType(f *Func, r Result, top bool) reflect.Type {
	switch r.Kind {
	case RSingle:
		if top && f.Role == RoleCtor && f.OptGroup != "" && f.OptFlatten {
			return reflect.SliceOf(valType(r.T))
		}
		return valType(r.T)
	case RGroup:
		if f.Role == RoleDec && r.NamedRes > 0 && r.T >= 0 && r.T < NumK && !isVal(r.T) && !isAlt(r.T) {
			if r.NamedRes == 2 {
				return ktTypes[r.T]
			}
			return ksTypes[r.T]
		}
		if r.Flatten || f.Role == RoleDec {
			return reflect.SliceOf(valType(r.T))
		}
		return valType(r.T)
	}
	fields := []reflect.StructField{{Name: "Out", Type: outType, Anonymous: true}}
	for i, fr := range r.Fields {
		fields = append(fields, reflect.StructField{
			Name: fmt.Sprintf("F%d", i),
			Type: resultType(f, fr, false),
			Tag:  resultTag(fr),
		})
	}
	return reflect.StructOf(fields)
}

// FuncType returns the Go type of the stub for f.
func FuncType(f *Func) reflect.Type {
	var in, out []reflect.Type
	for _, p := range f.Params {
		in = append(in, paramType(p, true))
	}
	if f.Variadic {
		in = append(in, varType)
	}
	for _, x := range f.Layout() {
		if x == -1 && f.ErrLike {
			out = append(out, errLikeType)
		} else if x < 0 {
			out = append(out, errType)
		} else {
			out = append(out, resultType(f, f.Results[x], true))
		}
	}
	return reflect.FuncOf(in, out, f.Variadic)
}

// FnValue returns (building it on first use) the function value for spec i.
func (w *World) FnValue(i int) interface{} {
	if w.fnOK[i] {
		return w.fnVals[i]
	}
	f := &w.H.Funcs[i]
	var v interface{}
	if f.Cat >= 0 {
		v = catalogFn(w, f)
	} else {
		ft := FuncType(f)
		v = reflect.MakeFunc(ft, func(args []reflect.Value) []reflect.Value {
			return w.call(f, ft, args)
		}).Interface()
	}
	w.fnVals[i], w.fnOK[i] = v, true
	return v
}

// ---------------------------------------------------------------- stub body

func nilable(v reflect.Value) bool {
	switch v.Kind() {
	case reflect.Ptr, reflect.Interface, reflect.Slice, reflect.Map, reflect.Chan, reflect.Func:
		return true
	}
	return false
}

func (w *World) observeSingle(v reflect.Value, t int) ArgObs {
	if !v.IsValid() {
		return ArgObs{Bad: "no such field"}
	}
	if (nilable(v) && v.IsNil()) || (!nilable(v) && v.IsZero()) {
		return ArgObs{Zero: true}
	}
	tok, ok := v.Interface().(Tok)
	if !ok {
		return ArgObs{Bad: "not a token"}
	}
	return w.observeTok(tok)
}

func (w *World) observeTok(tok Tok) ArgObs {
	s := tok.Ser()
	if s < 0 || int(s) >= len(w.Tokens) {
		return ArgObs{Serials: []int64{s}, Bad: "unknown serial"}
	}
	if w.Tokens[s].Ptr != interface{}(tok) {
		return ArgObs{Serials: []int64{s}, Bad: "same serial, different instance"}
	}
	return ArgObs{Serials: []int64{s}}
}

func (w *World) observeGroup(v reflect.Value) ArgObs {
	o := ArgObs{}
	if v.Kind() != reflect.Slice {
		o.Bad = "not a slice"
		return o
	}
	if v.IsNil() {
		o.Zero = true
	}
	for i := 0; i < v.Len(); i++ {
		e := v.Index(i)
		if e.Kind() == reflect.Slice {
			// a member that is itself a slice (possibly empty or nil)
			o.Serials = append(o.Serials, SepSerial)
			for j := 0; j < e.Len(); j++ {
				tok, ok := e.Index(j).Interface().(Tok)
				if !ok || (nilable(e.Index(j)) && e.Index(j).IsNil()) {
					o.Bad = "element of a slice-typed group member is not a token"
					continue
				}
				eo := w.observeTok(tok)
				o.Serials = append(o.Serials, eo.Serials...)
				if eo.Bad != "" {
					o.Bad = eo.Bad
				}
			}
			continue
		}
		if (nilable(e) && e.IsNil()) || (!nilable(e) && e.IsZero()) {
			o.Serials = append(o.Serials, -1)
			o.Bad = "nil group element"
			continue
		}
		tok, ok := e.Interface().(Tok)
		if !ok {
			o.Bad = "group element is not a token"
			continue
		}
		eo := w.observeTok(tok)
		o.Serials = append(o.Serials, eo.Serials...)
		if eo.Bad != "" {
			o.Bad = eo.Bad
		}
	}
	return o
}

func (w *World) observeParams(ps []Param, vals func(i int) reflect.Value, out []ArgObs) []ArgObs {
	for i, p := range ps {
		v := vals(i)
		switch p.Kind {
		case PSingle:
			out = append(out, w.observeSingle(v, p.T))
		case PGroup:
			out = append(out, w.observeGroup(v))
		case PObj:
			if p.AnonVal > 0 {
				// declared object: anonymous plain struct first, then the fields by name
				out = append(out, w.observeSingle(v.FieldByName(fmt.Sprintf("V%d", p.AnonVal-1)), TPlain+p.AnonVal-1))
				out = w.observeParams(p.Fields, func(j int) reflect.Value { return v.FieldByName(fmt.Sprintf("F%d", j)) }, out)
				continue
			}
			if p.Hidden != 0 {
				// declared (catalogue) object with an unexported field in between
				out = w.observeParams(p.Fields, func(j int) reflect.Value { return v.FieldByName(fmt.Sprintf("F%d", j)) }, out)
				continue
			}
			out = w.observeParams(p.Fields, func(j int) reflect.Value { return v.Field(j + 1) }, out)
		}
	}
	return out
}

func (w *World) mint(fn, exec, leaf, elem int, t int, poison bool, inputs []int64) reflect.Value {
	s := int64(len(w.Tokens))
	var p interface{}
	if IsSliceT(t) {
		t -= TSlice
	}
	switch {
	case IsIface(t):
		// a result declared with interface type I<j>: K<j mod 4> implements
		// it (also the embedding interfaces I4..I7)
		p = kNew[(t-TIface)%NumI](s)
	case isVal(t):
		p = vNew[t](s)
	case isAlt(t):
		p = altsim.KNew[altIndex(t)](s)
	default:
		p = kNew[t](s)
	}
	w.Tokens = append(w.Tokens, TokInfo{Serial: s, Fn: fn, Exec: exec, Leaf: leaf, Elem: elem, Poison: poison, Ptr: p, Inputs: inputs})
	return reflect.ValueOf(p)
}

// flattenCount is the number of elements execution exec of fn returns for a
// flatten result leaf: a fixed function of (fn, leaf), 0..3.
func flattenCount(salt int64, leaf int) int { return int(uint64(mix64(salt, int64(leaf))) % 4) }

type mintCtx struct {
	f      *Func
	exec   int
	poison bool
	zero   bool
	leaf   int
	args   []ArgObs
	lps    []LeafParam
	minted [][]int64
}

func (w *World) inputsFor(c *mintCtx, k Key) []int64 {
	if c.f.Role != RoleDec {
		return nil
	}
	for i, lp := range c.lps {
		if lp.Key == k {
			return c.args[i].Serials
		}
	}
	return nil
}

func (w *World) buildResult(c *mintCtx, r Result, rt reflect.Type, top bool) reflect.Value {
	f := c.f
	switch r.Kind {
	case RSingle, RGroup:
		leaf := c.leaf
		c.leaf++
		if c.zero {
			c.minted = append(c.minted, nil)
			return reflect.Zero(rt)
		}
		var key Key
		flatten := r.Flatten
		if r.Kind == RGroup {
			key = Key{T: r.T, Group: r.Group}
		} else {
			key = Key{T: r.T, Name: r.Name}
			if top && f.Role == RoleCtor {
				key.Name = f.OptName
				if f.OptGroup != "" {
					key = Key{T: r.T, Group: f.OptGroup}
					flatten = f.OptFlatten
				}
			}
		}
		if IsSliceT(r.T) {
			// members that are slices: one (plain) or several (flatten), each
			// with 0-3 elements, the first flatten member always empty / nil
			one := func(m int) (reflect.Value, []int64) {
				mt := valType(r.T)
				n := flattenCount(f.Salt, leaf*7+m+3)
				if m == 0 && flatten {
					n = 0
				}
				ser := []int64{SepSerial}
				if n == 0 && mix64(f.Salt, int64(leaf+m))&1 == 0 {
					return reflect.Zero(mt), ser // nil slice
				}
				sl := reflect.MakeSlice(mt, 0, n)
				for e := 0; e < n; e++ {
					v := w.mint(f.ID, c.exec, leaf, m*8+e, r.T, c.poison, nil)
					ser = append(ser, v.Interface().(Tok).Ser())
					sl = reflect.Append(sl, v)
				}
				return sl, ser
			}
			// a decorator returns the whole group, i.e. a slice of members
			whole := flatten || (f.Role == RoleDec && r.Kind == RGroup)
			if !whole {
				v, ser := one(0)
				c.minted = append(c.minted, ser)
				return v
			}
			n := 1 + flattenCount(f.Salt, leaf)
			outer := reflect.MakeSlice(rt, 0, n)
			var all []int64
			for m := 0; m < n; m++ {
				v, ser := one(m)
				outer = reflect.Append(outer, v)
				all = append(all, ser...)
			}
			c.minted = append(c.minted, all)
			return outer
		}
		if rt.Kind() == reflect.Slice {
			n := flattenCount(f.Salt, leaf)
			in := w.inputsFor(c, key)
			if f.Role == RoleDec {
				// a decorated group: keep the cardinality observable and
				// different from the input's
				n = len(in) + 1
			}
			_ = flatten
			sl := reflect.MakeSlice(rt, 0, n)
			var ser []int64
			for e := 0; e < n; e++ {
				v := w.mint(f.ID, c.exec, leaf, e, r.T, c.poison, in)
				ser = append(ser, v.Interface().(Tok).Ser())
				sl = reflect.Append(sl, v)
			}
			c.minted = append(c.minted, ser)
			return sl
		}
		v := w.mint(f.ID, c.exec, leaf, 0, r.T, c.poison, w.inputsFor(c, key))
		c.minted = append(c.minted, []int64{v.Interface().(Tok).Ser()})
		if rt.Kind() == reflect.Interface {
			iv := reflect.New(rt).Elem()
			iv.Set(v)
			return iv
		}
		return v
	}
	sv := reflect.New(rt).Elem()
	for i, fr := range r.Fields {
		sv.Field(i + 1).Set(w.buildResult(c, fr, rt.Field(i+1).Type, false))
	}
	return sv
}

// call is the body of every stub: the simulated environment.
func (w *World) call(f *Func, ft reflect.Type, args []reflect.Value) []reflect.Value {
	exec := w.Execs[f.ID]
	w.Execs[f.ID]++
	obs := w.observeParams(f.Params, func(i int) reflect.Value { return args[i] }, nil)
	ev := w.emit(Event{Kind: EvEnter, Fn: f.ID, Exec: exec, Args: obs})
	if w.Online != nil {
		w.Online(w, ev)
	}
	w.Open = append(w.Open, f.ID)
	fault := w.faultFor(f.ID, exec)
	if fault == FaultErr || fault == FaultErrPartial {
		if !f.HasErr {
			fault = FaultPanic
		}
	}
	if f.DurNs > 0 {
		w.advance(time.Duration(f.DurNs))
		w.SimT += f.DurNs
	}
	if fault != FaultNone {
		w.FaultsFired[fault]++
	}
	if fault == FaultPanic {
		w.Open = w.Open[:len(w.Open)-1]
		w.emit(Event{Kind: EvExit, Fn: f.ID, Exec: exec, Out: OutPanic})
		switch w.H.Cfg.PanicKind {
		case 1:
			panic(&PanicErr{f.ID, exec})
		case 2:
			panic(panicString(f.ID, exec))
		case 3:
			panic(&PanicWrap{f.ID, exec, aDigError})
		}
		panic(PanicVal{f.ID, exec})
	}
	c := &mintCtx{f: f, exec: exec, args: obs, lps: f.LeafParams(),
		poison: fault != FaultNone, zero: fault == FaultErr}
	layout := f.Layout()
	out := make([]reflect.Value, len(layout))
	for k, x := range layout {
		if x >= 0 {
			out[k] = w.buildResult(c, f.Results[x], ft.Out(k), true)
		}
	}
	res := OutOK
	for k, x := range layout {
		switch x {
		case -1:
			et := errType
			if f.ErrLike {
				et = errLikeType
			}
			out[k] = reflect.Zero(et)
			if fault != FaultNone {
				out[k] = reflect.ValueOf(w.injErr(f.ID, exec)).Convert(et)
				res = OutErr
			}
		case -2:
			out[k] = reflect.Zero(errType)
		}
	}
	if f.Reenter && !(f.ReCB && f.Callback) && f.Role != RoleInv && fault == FaultNone {
		w.reenter(f)
	}
	if f.ThenProvide > 0 && f.Role == RoleInv && fault != FaultPanic {
		// (also when the function then returns an error)
		w.thenProvide(f)
	}
	w.Open = w.Open[:len(w.Open)-1]
	w.emit(Event{Kind: EvExit, Fn: f.ID, Exec: exec, Out: res, Minted: c.minted})
	return out
}

// NestedProv records a Provide issued by an invoked function's body.
type NestedProv struct {
	Op, Fn, Scope int
	Facts         ErrFacts
}

// thenProvide: the invoked function registers a constructor before returning.
func (w *World) thenProvide(f *Func) {
	idx := f.ThenProvide - 1
	if idx < 0 || idx >= len(w.H.Funcs) || f.ThenScope < 0 || f.ThenScope >= len(w.Scopes) || w.H.Funcs[idx].Role != RoleCtor {
		return
	}
	g := &w.H.Funcs[idx]
	saved := append([]int(nil), w.Open...)
	fv := w.FnValue(idx)
	opts := w.provideOpts(g, nil)
	err, facts := w.guard(func() error {
		if f.ThenScope == 0 {
			return w.C.Provide(fv, opts...)
		}
		return w.Scopes[f.ThenScope].Provide(fv, opts...)
	})
	w.Open = saved
	if err == nil && !facts.Escaped {
		if w.HomeOf == nil {
			w.HomeOf = map[int]int{}
		}
		w.HomeOf[g.ID] = f.ThenScope
		if g.Export {
			w.HomeOf[g.ID] = 0
		}
	}
	w.NestedProv = append(w.NestedProv, NestedProv{Op: w.CurOp, Fn: idx, Scope: f.ThenScope, Facts: facts})
	w.emit(Event{Kind: EvNested, Fn: idx, Exec: 100 + int(verdictOf(facts))})
}

// reenter: re-entrant user code. The constructor's body asks the container (the
// scope the constructor lives in) for its own first result while it is being
// built. dig must answer with an error; it must never enter the constructor
// again. The nested call's outcome is logged.
func (w *World) reenter(f *Func) {
	if w.HomeOf == nil {
		return
	}
	home, ok := w.HomeOf[f.ID]
	if !ok || home >= len(w.Scopes) {
		return
	}
	lr := f.LeafResults()
	if len(lr) == 0 || len(lr[0].Keys) == 0 {
		return
	}
	k := lr[0].Keys[0]
	if f.ReKey != nil {
		// any key, from any scope (a nested demand through a different path)
		if f.ReScope < 0 || f.ReScope >= len(w.Scopes) {
			return
		}
		k, home = *f.ReKey, f.ReScope
	}
	if w.nest >= 3 {
		return // user code that re-enters from inside re-entered code stops somewhere
	}
	saved := append([]int(nil), w.Open...)
	w.nest++
	defer func() { w.nest--; w.Open = saved }()
	var p Param
	switch {
	case k.IsGroup():
		p = Param{Kind: PObj, Fields: []Param{{Kind: PGroup, T: k.T, Group: k.Group}}}
	case k.Name != "":
		p = Param{Kind: PObj, Fields: []Param{{Kind: PSingle, T: k.T, Name: k.Name}}}
	default:
		p = Param{Kind: PSingle, T: k.T}
	}
	probe := reflect.MakeFunc(reflect.FuncOf([]reflect.Type{paramType(p, true)}, nil, false), func(args []reflect.Value) []reflect.Value {
		// what the nested request delivered is part of the log
		obs := w.observeParams([]Param{p}, func(int) reflect.Value { return args[0] }, nil)
		w.emit(Event{Kind: EvNested, Fn: f.ID, Exec: -2, Args: obs})
		return nil
	}).Interface()
	err, facts := w.guard(func() error { return w.Scopes[home].Invoke(probe) })
	_ = err
	nv := verdictOf(facts)
	w.emit(Event{Kind: EvNested, Fn: f.ID, Exec: int(nv)})
}

func (w *World) callback(fn int) dig.Callback {
	return func(ci dig.CallbackInfo) {
		o := &CBObs{Name: ci.Name, ErrNil: ci.Error == nil, RootInj: [2]int{-1, -1}, PanicInj: [2]int{-1, -1}, RuntimeNs: int64(ci.Runtime)}
		if ci.Error != nil {
			if ie, ok := dig.RootCause(ci.Error).(*InjErr); ok {
				o.RootInj = [2]int{ie.Fn, ie.Exec}
			}
			if pe, ok := dig.RootCause(ci.Error).(dig.PanicError); ok {
				o.IsPanic = true
				if fn, ex, ok := injectedPanic(pe.Panic); ok {
					o.PanicInj = [2]int{fn, ex}
				}
			}
		}
		exec := w.Execs[fn] - 1
		o.Panicked = w.cbFaultFor(fn, exec)
		w.emit(Event{Kind: EvCallback, Fn: fn, CB: o})
		if o.Panicked {
			w.FaultsFired[FaultCBPanic]++
			panic(PanicCB{fn, exec})
		}
		if f := &w.H.Funcs[fn]; f.Reenter && f.ReCB {
			// re-entrant callback: asks the container while the function's
			// Call is still in progress (whatever its outcome was)
			w.reenter(f)
		}
	}
}

// Fingerprint hashes the event log in a canonical text form.
func (w *World) Fingerprint() string {
	h := sha256.New()
	for i := range w.Log {
		fmt.Fprintln(h, w.Log[i].Canon())
	}
	return hex.EncodeToString(h.Sum(nil))
}

func (e *Event) Canon() string {
	var b strings.Builder
	fmt.Fprintf(&b, "%d %s op=%d fn=%d ex=%d t=%d d=%d", e.Seq, e.Kind, e.Op, e.Fn, e.Exec, e.SimT, e.Depth)
	if e.Nest > 0 {
		fmt.Fprintf(&b, " nest=%d", e.Nest)
	}
	switch e.Kind {
	case EvEnter:
		for _, a := range e.Args {
			fmt.Fprintf(&b, " %v/%v/%s", a.Serials, a.Zero, a.Bad)
		}
	case EvNested:
		for _, a := range e.Args {
			fmt.Fprintf(&b, " %v/%v/%s", a.Serials, a.Zero, a.Bad)
		}
	case EvExit:
		fmt.Fprintf(&b, " %s %v", e.Out, e.Minted)
	case EvCallback:
		fmt.Fprintf(&b, " %+v", *e.CB)
	}
	return b.String()
}

// catalogFn resolves a catalogue (declared Go function) stub; set by catalog.go.
var catalogFn = func(w *World, f *Func) interface{} { panic("catalogue not linked") }
