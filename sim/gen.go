package sim

// Seeded generator of histories. Everything is derived from one Rng.

// Feat are the swarm knobs of one run.
type Feat struct {
	NT             int // payload types K0..K(NT-1)
	Names          []string
	Groups         []string
	MaxScopes      int
	MaxDepth       int
	MaxOps         int
	MaxParams      int
	DeepBias       bool // new scopes preferably below the deepest existing one
	Huge           bool // a very long, registration-heavy history
	Export         bool
	Objects        bool
	EmbedObjs      bool // nested parameter objects may be embedded (anonymous) fields
	Optional       bool
	Soft           bool
	Flatten        bool
	As             bool
	Decorators     bool
	GroupDecs      bool
	Variadic       bool
	PVariadic      float64
	PWide          float64 // probability of a function with 13-18 parameters
	Callbacks      bool
	Info           bool
	LocPC          bool // LocationForPC on some declared constructors (C18: IDs are still per function)
	DeepChains     bool // a share of the runs builds one long dependency path (tmplDeepChain)
	LocPCDyn       bool // ... and on reflect-made ones, which all share one code address (C20: the Name is the one of the given location)
	NamedSlice     bool
	Wild           float64 // probability that a constructor ignores the rank discipline
	PAvail         float64 // probability of picking an available dependency
	PDup           float64 // probability of deliberately colliding with a provided key
	FaultRate      float64
	FaultInv       float64
	FaultCB        float64 // probability that a function's callback panics
	PRetry         float64
	Slow           bool
	VisStr         float64 // probability weight of Visualize/String ops
	Catalog        bool
	MalRate        float64 // probability of inserting a call from the malformed grammar before an op
	MalTagsOnly    bool
	VisAfterInvoke float64
	PErrFirst      float64
	PReenter       float64
	PThenProvide   float64 // probability that an invoked function registers a constructor from its body
	PClone         float64 // probability that a Provide repeats the signature of an earlier constructor
	DecoIntroduce  bool    // allow decorators for keys nobody provides (DESIGN §9 R3)
}

type genCtx struct {
	r  *Rng
	ft Feat
	h  *History
	m  *Model // symbolic: what the generator believes was accepted
	// scope bookkeeping
	depth []int
	// probes / tags
	lastInvoke int
	catUsed    map[int]bool
	tmpl       func(g *genCtx)

	pendingThen *thenReg
}

type thenReg struct{ scope, fn int }

func (g *genCtx) newFunc(role Role) *Func {
	g.h.Funcs = append(g.h.Funcs, Func{ID: len(g.h.Funcs), Role: role, Cat: -1})
	f := &g.h.Funcs[len(g.h.Funcs)-1]
	f.Salt = g.r.I64() % 1000003
	if g.ft.Slow {
		f.DurNs = int64(1000 * (1 + g.r.Intn(10_000_000)))
		if g.r.P(0.3) {
			f.DurNs = int64(1 + g.r.Intn(1000))
		}
	}
	if g.ft.Info && g.r.P(0.8) {
		f.Info = true
		f.ReuseInfo = g.r.P(0.25)
	}
	return f
}

func (g *genCtx) pickScope() int { return g.r.Intn(len(g.m.S)) }

func (g *genCtx) name() string {
	if len(g.ft.Names) == 0 || g.r.P(0.6) {
		return ""
	}
	return g.ft.Names[g.r.Intn(len(g.ft.Names))]
}

func (g *genCtx) group() string {
	return g.ft.Groups[g.r.Intn(len(g.ft.Groups))]
}

// availableKeys lists keys with rank < maxT that have a provider visible from
// scope s (single keys) or are groups (always resolvable).
func (g *genCtx) availableKeys(s, maxT int, groups bool) []Key {
	var out []Key
	seen := map[Key]bool{}
	for _, x := range g.m.Path(s) {
		// deterministic order: iterate constructors, not the map
		for _, c := range g.m.S[x].Ctors {
			for _, r := range c.LR {
				for _, k := range r.Keys {
					if seen[k] || k.T >= maxT {
						continue
					}
					if k.IsGroup() && !groups {
						continue
					}
					seen[k] = true
					out = append(out, k)
				}
			}
		}
	}
	return out
}

func (g *genCtx) randomKey(maxT int, groups bool) (Key, bool) {
	if maxT <= 0 {
		return Key{}, false
	}
	k := Key{T: g.r.Intn(maxT)}
	if groups && len(g.ft.Groups) > 0 && g.r.P(0.25) {
		k.Group = g.group()
	} else {
		k.Name = g.name()
	}
	return k, true
}

// pickParamKeys chooses n dependency keys of rank < maxT for a function
// living in scope s.
func (g *genCtx) pickParamKeys(s, maxT, n int, ifaceOK bool) []Key {
	var ks []Key
	groups := len(g.ft.Groups) > 0 && g.ft.Objects
	av := g.availableKeys(s, maxT, groups)
	if ifaceOK {
		av = append(av, g.availableIfaceKeys(s)...)
	}
	for i := 0; i < n; i++ {
		if len(av) > 0 && g.r.P(g.ft.PAvail) {
			ks = append(ks, av[g.r.Intn(len(av))])
			continue
		}
		if k, ok := g.randomKey(maxT, groups); ok {
			ks = append(ks, k)
		}
	}
	return ks
}

func (g *genCtx) availableIfaceKeys(s int) []Key {
	var out []Key
	seen := map[Key]bool{}
	for _, x := range g.m.Path(s) {
		for _, c := range g.m.S[x].Ctors {
			for _, r := range c.LR {
				for _, k := range r.Keys {
					if IsIface(k.T) && !seen[k] {
						seen[k] = true
						out = append(out, k)
					}
				}
			}
		}
	}
	return out
}

// encodeParams turns a list of dependency keys into a parameter tree.
func (g *genCtx) encodeParams(keys []Key, role Role) []Param {
	var leaves []Param
	needObj := make([]bool, len(keys))
	for i, k := range keys {
		p := Param{Kind: PSingle, T: k.T, Name: k.Name}
		if k.IsGroup() {
			p = Param{Kind: PGroup, T: k.T, Group: k.Group}
			if g.ft.Soft && g.r.P(0.3) {
				p.Soft = true
			}
			if g.ft.NamedSlice && !IsIface(k.T) && g.r.P(0.3) {
				p.NamedSlice = true
				p.NamedAlt = g.r.P(0.4)
			}
			needObj[i] = true
		} else {
			if g.ft.Optional && g.ft.Objects && g.r.P(0.25) {
				p.Opt = true
			}
			needObj[i] = p.Name != "" || p.Opt
		}
		leaves = append(leaves, p)
	}
	// positional where possible, otherwise runs of leaves grouped into
	// parameter objects; inside an object, runs of fields may again form a
	// nested (possibly embedded) object, to any depth up to 4, with fields
	// before and after it
	var nest func(ls []Param, depth int) []Param
	nest = func(ls []Param, depth int) []Param {
		var out []Param
		for i := 0; i < len(ls); {
			if depth < 4 && g.r.P(0.18) {
				n := g.r.Range(1, 3)
				if n > len(ls)-i {
					n = len(ls) - i
				}
				out = append(out, Param{Kind: PObj, Embed: g.ft.EmbedObjs && g.r.P(0.4), Fields: nest(ls[i:i+n], depth+1)})
				i += n
				continue
			}
			out = append(out, ls[i])
			i++
		}
		return out
	}
	var out []Param
	for i := 0; i < len(leaves); {
		if !needObj[i] && !(g.ft.Objects && g.r.P(0.3)) {
			out = append(out, leaves[i])
			i++
			continue
		}
		j := i + 1
		for j < len(leaves) && g.r.P(0.8) && (needObj[j] || g.ft.Objects) {
			j++
		}
		out = append(out, Param{Kind: PObj, Fields: nest(leaves[i:j], 1)})
		i = j
	}
	return out
}

// genCtor builds a constructor spec for scope s.
func (g *genCtx) genCtor(s int) *Func {
	f := g.newFunc(RoleCtor)
	ft := g.ft
	f.Export = ft.Export && s != 0 && g.r.P(0.3)
	target := s
	if f.Export {
		target = 0
	}
	minT := g.r.Intn(ft.NT)
	if g.r.P(0.25) {
		minT = 0
	}
	nres := 1
	if ft.Objects && g.r.P(0.3) {
		nres = g.r.Range(2, 3)
	}
	var res []Result
	used := map[Key]bool{}
	for i := 0; i < nres; i++ {
		var r Result
		for try := 0; try < 6; try++ {
			t := g.r.Range(minT, ft.NT-1)
			if ft.As && g.r.P(0.12) {
				// declared with an interface type directly (no As): the same
				// keys an As registration elsewhere may claim
				t = TIface + g.r.Intn(NumIX)
			}
			r = Result{Kind: RSingle, T: t, Name: g.name()}
			if len(ft.Groups) > 0 && g.r.P(0.25) {
				r = Result{Kind: RGroup, T: t, Group: g.group()}
				if ft.Flatten && g.r.P(0.3) {
					r.Flatten = true
				}
				break
			}
			k := Key{T: t, Name: r.Name}
			if used[k] {
				continue
			}
			taken := len(g.m.S[target].Prov[k]) > 0
			if !taken || g.r.P(ft.PDup) {
				used[k] = true
				break
			}
		}
		res = append(res, r)
	}
	// encode results
	simple := len(res) == 1
	switch {
	case simple && res[0].Kind == RSingle && (!ft.Objects || g.r.P(0.6)):
		// positional, name via option
		f.OptName = res[0].Name
		f.Results = []Result{{Kind: RSingle, T: res[0].T}}
		if ft.As && !IsIface(res[0].T) && g.r.P(0.25) {
			for j := 0; j < NumIX; j++ {
				if Implements(res[0].T, j) && g.r.P(0.5) {
					f.OptAs = append(f.OptAs, j)
				}
			}
		}
		if ft.As && IsIface(res[0].T) && g.r.P(0.4) {
			// declared with an interface type and provided As interfaces it
			// implements (itself included or not)
			for j := 0; j < NumIX; j++ {
				if IfaceImplements(res[0].T-TIface, j) && g.r.P(0.6) {
					f.OptAs = append(f.OptAs, j)
				}
			}
		}
	case simple && res[0].Kind == RGroup && g.r.P(0.5):
		f.OptGroup = res[0].Group
		f.OptFlatten = res[0].Flatten
		f.Results = []Result{{Kind: RSingle, T: res[0].T}}
		if ft.As && !f.OptFlatten && !IsIface(res[0].T) && g.r.P(0.35) {
			for j := 0; j < NumIX; j++ {
				if Implements(res[0].T, j) && g.r.P(0.5) {
					f.OptAs = append(f.OptAs, j)
				}
			}
		}
		if ft.As && !f.OptFlatten && IsIface(res[0].T) && g.r.P(0.3) {
			for j := 0; j < NumIX; j++ {
				if IfaceImplements(res[0].T-TIface, j) && g.r.P(0.6) {
					f.OptAs = append(f.OptAs, j)
				}
			}
		}
	default:
		// result object(s); unnamed singles may stay positional
		var obj *Result
		for _, r := range res {
			if r.Kind == RSingle && r.Name == "" && g.r.P(0.5) {
				f.Results = append(f.Results, r)
				obj = nil
				continue
			}
			if obj == nil {
				f.Results = append(f.Results, Result{Kind: RObj})
				obj = &f.Results[len(f.Results)-1]
			}
			if g.r.P(0.15) {
				obj.Fields = append(obj.Fields, Result{Kind: RObj, Fields: []Result{r}})
			} else {
				obj.Fields = append(obj.Fields, r)
			}
		}
	}
	f.HasErr = g.r.P(0.7)
	f.ErrFirst = f.HasErr && g.r.P(ft.PErrFirst)
	if f.HasErr && !f.ErrFirst && len(f.Results) >= 2 && g.r.P(ft.PErrFirst) {
		f.ErrAt = g.r.Range(1, len(f.Results)-1) // (T1, error, T2): legal, unusual
	}
	if f.HasErr && g.r.P(ft.PErrFirst/2) {
		f.ErrExtra = g.r.Range(1, 2) // two error results: the other one stays nil
	}
	f.ErrLike = f.HasErr && g.r.P(ft.PErrFirst/2)
	f.Reenter = g.r.P(ft.PReenter)
	if f.Reenter {
		g.reenterShape(f, s)
	}
	maxT := minT
	wild := g.r.P(ft.Wild)
	if wild {
		maxT = ft.NT
	}
	np := 0
	if maxT > 0 {
		np = g.r.Intn(g.ft.MaxParams + 1)
		if g.r.P(ft.PWide) {
			np = g.r.Range(13, 18)
		}
	}
	f.Params = g.encodeParams(g.pickParamKeys(s, maxT, np, false), RoleCtor)
	if np >= 13 && g.r.P(0.7) {
		f.Params = oneObject(f.Params)
	}
	f.Variadic = ft.Variadic && g.r.P(ft.PVariadic)
	f.OptNoise = g.r.P(0.06)
	f.Callback = f.Callback || (ft.Callbacks && g.r.P(0.5))
	f.LocPC = ft.LocPC && ft.LocPCDyn && g.r.P(0.3)
	return f
}

func (g *genCtx) genInvoke(s int) *Func {
	f := g.newFunc(RoleInv)
	n := g.r.Range(1, 3)
	if g.r.P(0.05) {
		n = 0
	}
	if g.r.P(g.ft.PWide) {
		n = g.r.Range(13, 18) // a very wide parameter list / parameter object
	}
	f.Params = g.encodeParams(g.pickParamKeys(s, g.ft.NT, n, true), RoleInv)
	if n >= 13 {
		f.Params = oneObject(f.Params)
	}
	f.HasErr = g.r.P(0.5)
	f.ErrLike = f.HasErr && g.r.P(g.ft.PErrFirst/2)
	f.Variadic = g.ft.Variadic && g.r.P(g.ft.PVariadic)
	return f
}

// genDecorator builds a decorator for 1-2 keys visible from scope s.
func (g *genCtx) genDecorator(s int) *Func {
	f := g.newFunc(RoleDec)
	groups := g.ft.GroupDecs && len(g.ft.Groups) > 0
	av := g.availableKeys(s, g.ft.NT, groups)
	if g.ft.As {
		// keys of interface type (As registrations, results declared as interfaces)
		for _, k := range g.availableIfaceKeys(s) {
			if !k.IsGroup() || groups {
				av = append(av, k)
			}
		}
	}
	n := 1
	if g.r.P(0.3) {
		n = 2
	}
	var keys []Key
	seen := map[Key]bool{}
	for i := 0; i < n; i++ {
		var k Key
		if len(av) > 0 && (g.r.P(0.85) || !g.ft.DecoIntroduce) {
			k = av[g.r.Intn(len(av))]
		} else if g.ft.DecoIntroduce {
			k, _ = g.randomKey(g.ft.NT, groups)
		} else {
			continue
		}
		if seen[k] && !g.r.P(g.ft.PDup) {
			// (the same key twice in one decorator: must be rejected as a whole)
			continue
		}
		if g.m.S[s].Dec[k] != nil && !g.r.P(g.ft.PDup) {
			continue
		}
		seen[k] = true
		keys = append(keys, k)
	}
	if len(keys) == 0 {
		if !g.ft.DecoIntroduce {
			g.h.Funcs = g.h.Funcs[:len(g.h.Funcs)-1]
			return nil
		}
		k, _ := g.randomKey(g.ft.NT, false)
		keys = append(keys, k)
	}
	minT := keys[0].T
	var pkeys []Key
	for _, k := range keys {
		if k.T < minT {
			minT = k.T
		}
		if IsIface(k.T) {
			minT = 0 // no auxiliary parameters: an interface key has no rank
		}
		if g.r.P(0.85) {
			pkeys = append(pkeys, k)
		}
	}
	if minT > 0 {
		pkeys = append(pkeys, g.pickParamKeys(s, minT, g.r.Intn(3), false)...)
	}
	// results: unnamed singles positional, the rest in one Out object
	var obj *Result
	for _, k := range keys {
		if !k.IsGroup() && k.Name == "" && (!g.ft.Objects || g.r.P(0.6)) {
			f.Results = append(f.Results, Result{Kind: RSingle, T: k.T})
			obj = nil
			continue
		}
		if obj == nil {
			f.Results = append(f.Results, Result{Kind: RObj})
			obj = &f.Results[len(f.Results)-1]
		}
		if k.IsGroup() {
			named := 0
			if g.ft.NamedSlice && !IsIface(k.T) && g.r.P(0.35) {
				named = g.r.Range(1, 2) // the decorated group is returned as a named slice type
			}
			obj.Fields = append(obj.Fields, Result{Kind: RGroup, T: k.T, Group: k.Group, NamedRes: named})
		} else {
			obj.Fields = append(obj.Fields, Result{Kind: RSingle, T: k.T, Name: k.Name})
		}
	}
	// parameters: no soft / optional / named-slice decoration inputs by default
	saveSoft, saveOpt, saveNS := g.ft.Soft, g.ft.Optional, g.ft.NamedSlice
	g.ft.Soft, g.ft.Optional, g.ft.NamedSlice = false, false, false
	f.Params = g.encodeParams(pkeys, RoleDec)
	g.ft.Soft, g.ft.Optional, g.ft.NamedSlice = saveSoft, saveOpt, saveNS
	f.HasErr = g.r.P(0.7)
	f.ErrFirst = f.HasErr && g.r.P(g.ft.PErrFirst)
	if f.HasErr && !f.ErrFirst && len(f.Results) >= 2 && g.r.P(g.ft.PErrFirst) {
		f.ErrAt = g.r.Range(1, len(f.Results)-1)
	}
	if f.HasErr && g.r.P(g.ft.PErrFirst/2) {
		f.ErrExtra = g.r.Range(1, 2)
	}
	f.ErrLike = f.HasErr && g.r.P(g.ft.PErrFirst/2)
	f.Callback = g.ft.Callbacks && g.r.P(0.5)
	f.Variadic = g.ft.Variadic && g.r.P(g.ft.PVariadic)
	if g.r.P(g.ft.PReenter) {
		// body asks its own scope for the first key it decorates; only when it
		// also takes that key as input (otherwise the nested request would
		// legitimately build what the decorator hides)
		if lr := f.LeafResults(); len(lr) > 0 {
			for _, p := range f.LeafParams() {
				if p.Key == lr[0].Keys[0] {
					f.Reenter = true
					if g.r.P(0.4) {
						f.ReCB, f.Callback = true, true
					}
				}
			}
		}
	}
	return f
}

func (g *genCtx) addOp(o Op) int {
	g.h.Ops = append(g.h.Ops, o)
	return len(g.h.Ops) - 1
}

func (g *genCtx) opScope() {
	if len(g.m.S) >= g.ft.MaxScopes {
		return
	}
	var cands []int
	for s := range g.m.S {
		if g.m.Depth(s) < g.ft.MaxDepth {
			cands = append(cands, s)
		}
	}
	if len(cands) == 0 {
		return
	}
	p := cands[g.r.Intn(len(cands))]
	if g.ft.DeepBias && g.r.P(0.6) {
		// grow chains: below (one of) the deepest scopes that may have children
		best := -1
		for _, s := range cands {
			if d := g.m.Depth(s); d > best {
				best = d
			}
		}
		var deep []int
		for _, s := range cands {
			if g.m.Depth(s) == best {
				deep = append(deep, s)
			}
		}
		p = deep[g.r.Intn(len(deep))]
	}
	g.addOp(Op{Kind: OpScope, Scope: p})
	g.m.AddScope(p)
}

// fromCatalog copies catalogue entry idx into the history as a new function.
func (g *genCtx) fromCatalog(idx int) *Func {
	spec := deepCopyFunc(&catSpecs[idx])
	f := g.newFunc(spec.Role)
	id, dur, info, salt := f.ID, f.DurNs, f.Info, f.Salt
	*f = spec
	f.ID, f.DurNs, f.Info, f.Cat, f.Salt = id, dur, info, idx, salt
	if g.catUsed == nil {
		g.catUsed = map[int]bool{}
	}
	g.catUsed[idx] = true
	return f
}

// pickCat draws an unused catalogue entry in [lo, hi) that fits: with
// probability PAvail one whose required dependencies are visible from s (and,
// for constructors, whose keys are still free in the target scope).
func (g *genCtx) pickCat(s, lo, hi int, fits func(spec *Func) bool) int {
	first := -1
	for try := 0; try < 60; try++ {
		idx := lo + g.r.Intn(hi-lo)
		if g.catUsed[idx] {
			continue
		}
		if first < 0 {
			first = idx
		}
		if fits(&catSpecs[idx]) {
			if g.r.P(g.ft.PAvail) {
				return idx
			}
			continue
		}
		if !g.r.P(g.ft.PAvail) {
			return idx
		}
	}
	return first
}

func (g *genCtx) depsVisible(s int, spec *Func) bool {
	for _, p := range spec.LeafParams() {
		if p.Key.IsGroup() || p.Opt {
			continue
		}
		if len(g.m.AllProv(s, p.Key)) == 0 {
			return false
		}
	}
	return true
}

func (g *genCtx) catCtor(s int) *Func {
	idx := g.pickCat(s, 0, catCtors, func(spec *Func) bool {
		if !g.depsVisible(s, spec) {
			return false
		}
		for _, k := range singleKeys(spec.LeafResults()) {
			if len(g.m.S[s].Prov[k]) > 0 || len(g.m.S[0].Prov[k]) > 0 {
				return false
			}
		}
		return true
	})
	if idx < 0 {
		return nil
	}
	f := g.fromCatalog(idx)
	f.Export = g.ft.Export && s != 0 && g.r.P(0.3)
	f.Callback = g.ft.Callbacks && g.r.P(0.6)
	f.LocPC = g.ft.LocPC && g.r.P(0.3)
	return f
}

func (g *genCtx) catDec(s int) *Func {
	idx := g.pickCat(s, catCtors, catCtors+catDecs, func(spec *Func) bool {
		if !g.depsVisible(s, spec) {
			return false
		}
		for _, k := range spec.AllKeys() {
			if g.m.S[s].Dec[k] != nil || (!k.IsGroup() && len(g.m.AllProv(s, k)) == 0) {
				return false
			}
		}
		return true
	})
	if idx < 0 {
		return nil
	}
	f := g.fromCatalog(idx)
	f.Callback = g.ft.Callbacks && g.r.P(0.6)
	return f
}

func (g *genCtx) catInv(s int) *Func {
	idx := g.pickCat(s, catCtors+catDecs, catCtors+catDecs+catInvs, func(spec *Func) bool { return g.depsVisible(s, spec) })
	if idx < 0 {
		return nil
	}
	return g.fromCatalog(idx)
}

func (g *genCtx) opProvide(s int) {
	if g.ft.Catalog {
		f := g.catCtor(s)
		if f == nil {
			return
		}
		i := g.addOp(Op{Kind: OpProvide, Scope: s, Fn: f.ID})
		if g.m.PredictProvide(s, f) == PredOK {
			g.m.AddCtor(s, i, f)
		}
		return
	}
	f := g.genCtor(s)
	if g.r.P(g.ft.PClone) {
		// the same signature as an earlier constructor (another function of
		// the identical Go type), usually in another scope
		var prev []int
		for k := range g.h.Funcs[:f.ID] {
			if c := &g.h.Funcs[k]; c.Role == RoleCtor && c.Cat < 0 && c.ThenProvide == 0 {
				prev = append(prev, k)
			}
		}
		if len(prev) > 0 {
			id, salt := f.ID, f.Salt
			*f = deepCopyFunc(&g.h.Funcs[prev[g.r.Intn(len(prev))]])
			f.ID, f.Salt = id, salt
			f.Reenter, f.ReKey, f.ReCB = false, nil, false
		}
	}
	i := g.addOp(Op{Kind: OpProvide, Scope: s, Fn: f.ID})
	if g.m.PredictProvide(s, f) == PredOK {
		g.m.AddCtor(s, i, f)
	}
}

func (g *genCtx) opDecorate(s int) {
	f := g.genDecorator(s)
	if g.ft.Catalog {
		if f != nil {
			g.h.Funcs = g.h.Funcs[:len(g.h.Funcs)-1]
		}
		f = g.catDec(s)
	}
	if f == nil {
		g.opProvide(s)
		return
	}
	i := g.addOp(Op{Kind: OpDecorate, Scope: s, Fn: f.ID})
	if g.m.PredictDecorate(s, f) == PredOK {
		g.m.AddDec(s, i, f)
	}
}

func (g *genCtx) opInvoke(s int) {
	defer func() {
		if g.ft.VisAfterInvoke > 0 && g.r.P(g.ft.VisAfterInvoke) && len(g.h.Ops) > 0 && g.h.Ops[len(g.h.Ops)-1].Kind == OpInvoke {
			g.addOp(Op{Kind: OpVisualize, ErrFrom: len(g.h.Ops)})
		}
	}()
	var f *Func
	if g.ft.Catalog {
		if f = g.catInv(s); f == nil {
			return
		}
	} else {
		f = g.genInvoke(s)
	}
	if !g.ft.Catalog && g.r.P(g.ft.PThenProvide) {
		// the invoked function lazily registers a constructor before it returns
		ps := g.pickScope()
		fid := f.ID
		ctor := g.genCtor(ps)
		ctor.Callback, ctor.Info = false, false
		f = &g.h.Funcs[fid] // genCtor may have grown the slice
		f.ThenProvide, f.ThenScope = ctor.ID+1, ps
		g.pendingThen = &thenReg{scope: ps, fn: ctor.ID}
		if (g.ft.FaultRate > 0 || g.ft.FaultInv > 0) && g.r.P(0.35) {
			// ... and then fails: the registration stands, the Invoke is an error
			// (classes that inject faults at all)
			f.HasErr = true
			g.h.Faults = append(g.h.Faults, Fault{Fn: f.ID, From: 0, To: -1, Kind: FaultErr})
		}
	}
	g.addOp(Op{Kind: OpInvoke, Scope: s, Fn: f.ID})
	if g.pendingThen != nil {
		// the generator's own model follows optimistically (as if the Invoke
		// reaches the function's body)
		t := g.pendingThen
		g.pendingThen = nil
		if g.m.PredictProvide(t.scope, &g.h.Funcs[t.fn]) == PredOK {
			g.m.AddCtor(t.scope, len(g.h.Ops)-1, &g.h.Funcs[t.fn])
		}
		return // no retry of an Invoke that registers something
	}
	for g.r.P(g.ft.PRetry) {
		g.retryInvoke(s, f.ID)
	}
}

func (g *genCtx) retryInvoke(s, fn int) {
	src := g.h.Funcs[fn]
	f := g.newFunc(RoleInv)
	id, dur, info := f.ID, f.DurNs, f.Info
	*f = src
	f.ID, f.DurNs, f.Info = id, dur, info
	f.Cat = -1 // a catalogue function is bound to one spec per run: the retry uses a dynamic stub
	f.Params = deAnon(f.Params)
	g.addOp(Op{Kind: OpInvoke, Scope: s, Fn: f.ID, Retry: true})
}

func (g *genCtx) opVisStr() {
	if g.r.P(0.5) {
		g.addOp(Op{Kind: OpString})
		return
	}
	o := Op{Kind: OpVisualize}
	if g.r.P(0.5) {
		// error of the most recent Invoke
		for i := len(g.h.Ops) - 1; i >= 0; i-- {
			if g.h.Ops[i].Kind == OpInvoke {
				o.ErrFrom = i + 1
				break
			}
		}
	}
	g.addOp(o)
}

// genFaults draws the fault plan over the functions of the history.
func (g *genCtx) genFaults() {
	for i := range g.h.Funcs {
		f := &g.h.Funcs[i]
		rate := g.ft.FaultRate
		if f.Role == RoleInv {
			rate = g.ft.FaultInv
		}
		if !g.r.P(rate) {
			continue
		}
		fl := Fault{Fn: f.ID, From: 0, To: g.r.Range(1, 2), Kind: FaultKind(g.r.Range(1, 3))}
		if g.r.P(0.2) {
			fl.To = -1
		}
		if g.r.P(0.1) {
			fl.From = 1
			if fl.To >= 0 {
				fl.To++
			}
		}
		g.h.Faults = append(g.h.Faults, fl)
	}
	for i := range g.h.Funcs {
		f := &g.h.Funcs[i]
		if f.Callback && f.Role != RoleInv && g.r.P(g.ft.FaultCB) {
			// the callback panics (never recovered by dig): whatever the
			// function committed must stay, nothing runs twice
			fl := Fault{Fn: f.ID, From: 0, To: 1, Kind: FaultCBPanic}
			if g.r.P(0.3) {
				fl.To = -1
			}
			g.h.Faults = append(g.h.Faults, fl)
		}
	}
}

// BaseFeat draws the swarm configuration of a run.
func BaseFeat(r *Rng, thorough bool) Feat {
	ft := Feat{
		NT:        r.Range(3, 8),
		MaxScopes: r.Range(1, 6),
		MaxDepth:  r.Range(1, 4),
		MaxOps:    r.Range(8, 40),
		PAvail:    0.7 + 0.25*float64(r.Intn(2)),
		PDup:      0.1,
		PRetry:    0.3,
		MaxParams: 3,
	}
	if thorough {
		ft.NT = r.Range(3, 10)
		ft.MaxScopes = r.Range(1, 8)
		ft.MaxOps = r.Range(8, 120)
		ft.MaxDepth = r.Range(1, 5)
		ft.MaxParams = r.Range(3, 5)
	}
	if r.P(0.7) {
		ft.Names = []string{"n1", "n2"}[:r.Range(1, 2)]
	}
	if r.P(0.7) {
		ft.Groups = []string{"g1", "g2"}[:r.Range(1, 2)]
	}
	if r.P(0.15) {
		// keys that differ only in blanks are different keys
		if len(ft.Names) > 0 {
			ft.Names = append(ft.Names, ft.Names[0]+" ")
			if r.P(0.5) {
				ft.Names = append(ft.Names, ft.Names[0]+",x") // a comma is an ordinary character of a name
			}
		}
		if len(ft.Groups) > 0 {
			ft.Groups = append(ft.Groups, ft.Groups[0]+" ")
		}
	}
	ft.Export = r.P(0.6)
	ft.Objects = r.P(0.8)
	ft.EmbedObjs = r.P(0.4)
	ft.Optional = r.P(0.6)
	ft.Soft = r.P(0.5)
	ft.Flatten = r.P(0.6)
	ft.As = r.P(0.4)
	ft.Decorators = r.P(0.6)
	ft.GroupDecs = r.P(0.5)
	ft.Variadic = r.P(0.3)
	ft.NamedSlice = r.P(0.25)
	ft.PVariadic = []float64{0.1, 0.1, 0.4}[r.Intn(3)]
	ft.PWide = []float64{0, 0, 0.03}[r.Intn(3)]
	ft.Huge = r.P(0.004)
	ft.PThenProvide = []float64{0, 0, 0.06}[r.Intn(3)]
	ft.PClone = []float64{0, 0.05, 0.15}[r.Intn(3)]
	ft.Info = r.P(0.3)
	ft.PErrFirst = []float64{0, 0.15, 0.3}[r.Intn(3)]
	if r.P(0.2) {
		// deep trees: chains of depth >= 3 with siblings at the bottom
		ft.DeepBias = true
		ft.MaxScopes, ft.MaxDepth = r.Range(5, 8), r.Range(3, 5)
	}
	return ft
}

// Weights of the op mix.
type Mix struct{ Scope, Provide, Decorate, Invoke, VisStr int }

func (g *genCtx) randomOps(n int, mx Mix) {
	total := mx.Scope + mx.Provide + mx.Decorate + mx.Invoke + mx.VisStr
	for len(g.h.Ops) < n {
		if g.ft.MalRate > 0 && g.r.P(g.ft.MalRate) {
			m := GenMal(g.r)
			if g.ft.MalTagsOnly {
				for m.Kind != "in-tag" && m.Kind != "out-tag" && m.Kind != "unexported-field" {
					m = GenMal(g.r)
				}
			}
			sc := g.pickScope()
			g.addOp(Op{Kind: OpMalformed, Scope: sc, Mal: m})
			if m.API != "invoke" && !g.ft.MalTagsOnly {
				// follow up with probes so that whatever the call left
				// behind is exercised
				for g.r.P(0.5) {
					ps := sc
					if g.r.P(0.3) {
						ps = g.pickScope()
					}
					g.addOp(Op{Kind: OpMalformed, Scope: ps, Mal: &Mal{API: "invoke", Kind: "probe", Arg: g.r.Intn(1 << 16)}})
				}
			}
			continue
		}
		x := g.r.Intn(total)
		switch {
		case x < mx.Scope:
			g.opScope()
		case x < mx.Scope+mx.Provide:
			g.opProvide(g.pickScope())
		case x < mx.Scope+mx.Provide+mx.Decorate:
			if g.ft.Decorators {
				g.opDecorate(g.pickScope())
			} else {
				g.opProvide(g.pickScope())
			}
		case x < mx.Scope+mx.Provide+mx.Decorate+mx.Invoke:
			g.opInvoke(g.pickScope())
		default:
			g.opVisStr()
		}
	}
}

func newGen(prop string, seed, run int64, thorough bool) *genCtx {
	catInit()
	r := NewRng(RunSeed(seed, prop, run))
	g := &genCtx{r: r}
	g.ft = BaseFeat(r, thorough)
	g.h = &History{Prop: prop, Seed: seed, Run: run}
	g.h.Cfg = Config{Recover: r.P(0.5), Defer: r.P(0.15), ShuffleSeed: r.I64(), PanicKind: r.Intn(4)}
	g.h.Cfg.OptNoise = r.P(0.15)
	if r.P(0.35) {
		// some universe positions are struct values instead of pointers
		g.h.Cfg.ValMask = uint32(r.U64()) & uint32(r.U64()) & (1<<NumK - 1)
	}
	if r.P(0.2) {
		// some positions are same-named types of another package "sim"
		g.h.Cfg.AltMask = uint32(r.U64()) & uint32(r.U64()) & (1<<NumK - 1)
	}
	g.m = NewModel(g.h.Cfg.Defer)
	return g
}

// ---------------------------------------------------------------- templates

func (g *genCtx) ensureScopes(n int) {
	for len(g.m.S) < n {
		g.addOp(Op{Kind: OpScope, Scope: 0, Tag: "tmpl"})
		g.m.AddScope(0)
	}
}

// simpleCtor registers ctor(params...) -> result in scope s.
func (g *genCtx) simpleCtor(s int, params []int, result int, export bool, tag string) {
	f := g.newFunc(RoleCtor)
	for _, t := range params {
		f.Params = append(f.Params, Param{Kind: PSingle, T: t})
	}
	f.Results = []Result{{Kind: RSingle, T: result}}
	f.HasErr = g.r.P(0.5)
	f.Export = export
	i := g.addOp(Op{Kind: OpProvide, Scope: s, Fn: f.ID, Tag: tag})
	if g.m.PredictProvide(s, f) == PredOK {
		g.m.AddCtor(s, i, f)
	}
}

func (g *genCtx) simpleInvoke(s int, params []int, tag string) {
	f := g.newFunc(RoleInv)
	for _, t := range params {
		f.Params = append(f.Params, Param{Kind: PSingle, T: t})
	}
	g.addOp(Op{Kind: OpInvoke, Scope: s, Fn: f.ID, Tag: tag})
}

// tmplCrossSiblingCycle: exported constructors of two sibling scopes depend on
// each other through private dependencies: no single scope's graph holds the
// cycle. Uses 4 distinct types.
func (g *genCtx) tmplCrossSiblingCycle() {
	if g.ft.NT < 4 {
		return
	}
	g.ensureScopes(3)
	p := g.r.Perm(g.ft.NT)
	a, b, x, y := p[0], p[1], p[2], p[3]
	s1, s2 := 1, 2
	ctorA := func() { g.simpleCtor(s1, []int{x}, a, true, "cross-sibling") }
	var more []func()
	if !g.ft.Catalog && g.ft.NT+3 <= NumK && g.r.P(0.3) {
		// a constructor of the loop has an optional dependency, listed first,
		// whose provider gives up every time it is tried: the value it needs
		// is decorated by a decorator with a dependency nobody provides
		q, z, u := g.ft.NT, g.ft.NT+1, g.ft.NT+2
		ctorA = func() {
			f := g.newFunc(RoleCtor)
			f.Params = []Param{{Kind: PObj, Fields: []Param{{Kind: PSingle, T: q, Opt: true}}}, {Kind: PSingle, T: x}}
			f.Results = []Result{{Kind: RSingle, T: a}}
			f.HasErr = g.r.P(0.5)
			f.Export = true
			i := g.addOp(Op{Kind: OpProvide, Scope: s1, Fn: f.ID, Tag: "cross-sibling"})
			if g.m.PredictProvide(s1, f) == PredOK {
				g.m.AddCtor(s1, i, f)
			}
		}
		zs := []int{0, s1}[g.r.Intn(2)]
		more = []func(){
			func() { g.simpleCtor(s1, []int{z}, q, false, "cross-sibling") },
			func() { g.simpleCtor(zs, nil, z, false, "cross-sibling") },
			func() { g.simpleDec(s1, z, []int{u}, "cross-sibling") },
		}
	}
	steps := []func(){
		func() { g.simpleCtor(s1, []int{b}, x, false, "cross-sibling") },
		ctorA,
		func() { g.simpleCtor(s2, []int{a}, y, false, "cross-sibling") },
		func() { g.simpleCtor(s2, []int{y}, b, true, "cross-sibling") },
	}
	steps = append(steps, more...)
	if g.r.P(0.4) {
		// the loop passes through decorated values: decorators start and
		// complete (or give up for a dependency nobody provides) while the
		// constructors of the loop are being built
		for n := g.r.Range(1, 2); n > 0; n-- {
			sc, k := s1, x
			if g.r.P(0.5) {
				sc, k = s2, y
			}
			var extra []int
			if g.ft.NT > 4 && g.r.P(0.4) {
				extra = []int{p[4]} // often unprovided
			}
			steps = append(steps, func() { g.simpleDec(sc, k, extra, "cross-sibling") })
		}
	}
	for _, i := range g.r.Perm(len(steps)) {
		steps[i]()
	}
	g.simpleInvoke([]int{0, s1, s2}[g.r.Intn(3)], []int{[]int{a, b}[g.r.Intn(2)]}, "cross-sibling")
	if g.r.P(0.3) {
		g.simpleInvoke([]int{0, s1, s2}[g.r.Intn(3)], []int{[]int{a, b}[g.r.Intn(2)]}, "cross-sibling")
	}
}

// simpleDec: a decorator func(k, extra...) k registered in s.
func (g *genCtx) simpleDec(s, k int, extra []int, tag string) {
	f := g.newFunc(RoleDec)
	f.Params = []Param{{Kind: PSingle, T: k}}
	for _, t := range extra {
		if g.r.P(0.5) {
			f.Params = append(f.Params, Param{Kind: PObj, Fields: []Param{{Kind: PSingle, T: t, Opt: true}}})
		} else {
			f.Params = append(f.Params, Param{Kind: PSingle, T: t})
		}
	}
	f.Results = []Result{{Kind: RSingle, T: k}}
	f.HasErr = g.r.P(0.3)
	i := g.addOp(Op{Kind: OpDecorate, Scope: s, Fn: f.ID, Tag: tag})
	if g.m.PredictDecorate(s, f) == PredOK {
		g.m.AddDec(s, i, f)
	}
}

// tmplDescendantCycle: a Provide to an ancestor closes a cycle that exists only
// in the view of a descendant scope; afterwards the same key is registered
// again and invoked.
func (g *genCtx) tmplDescendantCycle() {
	if g.ft.NT < 2 {
		return
	}
	g.ensureScopes(2)
	p := g.r.Perm(g.ft.NT)
	k1, k2 := p[0], p[1]
	child := 1 + g.r.Intn(len(g.m.S)-1)
	parent := g.m.S[child].Parent
	g.simpleCtor(child, []int{k2}, k1, false, "descendant-cycle")
	g.simpleCtor(parent, []int{k1}, k2, g.r.P(0.2), "descendant-cycle") // closes the cycle in the child's view only
	if g.r.P(0.7) {
		g.simpleCtor(parent, nil, k2, false, "descendant-cycle") // the same key again: must be accepted
	}
	g.simpleInvoke([]int{parent, child}[g.r.Intn(2)], []int{k2}, "descendant-cycle")
}

// tmplDescendantCycleGroup: a group feeder provided to an ancestor is rejected
// because it closes a cycle only in a descendant's view (the descendant
// privately builds the feeder's dependency from the group); the group is then
// consumed from both scopes.
func (g *genCtx) tmplDescendantCycleGroup() {
	if g.ft.NT < 2 || len(g.ft.Groups) == 0 {
		return
	}
	g.ensureScopes(2)
	p := g.r.Perm(g.ft.NT)
	a, m := p[0], p[1]
	grp := g.group()
	child := 1 + g.r.Intn(len(g.m.S)-1)
	parent := g.m.S[child].Parent
	// an honest feeder first
	f0 := g.newFunc(RoleCtor)
	f0.Results = []Result{{Kind: RSingle, T: m}}
	f0.OptGroup = grp
	i := g.addOp(Op{Kind: OpProvide, Scope: parent, Fn: f0.ID, Tag: "desc-cycle-group"})
	if g.m.PredictProvide(parent, f0) == PredOK {
		g.m.AddCtor(parent, i, f0)
	}
	// child: *A built from the group
	f1 := g.newFunc(RoleCtor)
	f1.Params = []Param{{Kind: PObj, Fields: []Param{{Kind: PGroup, T: m, Group: grp}}}}
	f1.Results = []Result{{Kind: RSingle, T: a}}
	i = g.addOp(Op{Kind: OpProvide, Scope: child, Fn: f1.ID, Tag: "desc-cycle-group"})
	if g.m.PredictProvide(child, f1) == PredOK {
		g.m.AddCtor(child, i, f1)
	}
	// parent: a feeder of the group that needs *A: cyclic in the child's view only
	f2 := g.newFunc(RoleCtor)
	f2.Params = []Param{{Kind: PSingle, T: a}}
	f2.Results = []Result{{Kind: RSingle, T: m}}
	f2.OptGroup = grp
	i = g.addOp(Op{Kind: OpProvide, Scope: parent, Fn: f2.ID, Tag: "desc-cycle-group"})
	if g.m.PredictProvide(parent, f2) == PredOK {
		g.m.AddCtor(parent, i, f2)
	}
	for _, s := range []int{parent, child} {
		f := g.newFunc(RoleInv)
		f.Params = []Param{{Kind: PObj, Fields: []Param{{Kind: PGroup, T: m, Group: grp}}}}
		g.addOp(Op{Kind: OpInvoke, Scope: s, Fn: f.ID, Tag: "desc-cycle-group"})
	}
}

// keyParam / keyResult express a single key as a parameter / decorator result.
func keyParam(k Key) Param {
	if k.Name != "" {
		return Param{Kind: PObj, Fields: []Param{{Kind: PSingle, T: k.T, Name: k.Name}}}
	}
	return Param{Kind: PSingle, T: k.T}
}

func keyResult(k Key) Result {
	if k.Name != "" {
		return Result{Kind: RObj, Fields: []Result{{Kind: RSingle, T: k.T, Name: k.Name}}}
	}
	return Result{Kind: RSingle, T: k.T}
}

// tmplDecorateFirst: "every order of Decorate relative to Provide" -- a
// decorator is registered for a key that nobody provides yet; the provider
// arrives afterwards (in the same scope, an ancestor, or exported from
// elsewhere), possibly after other registrations; then the key is requested
// from the decorator's scope or below.
func (g *genCtx) tmplDecorateFirst() {
	s := g.pickScope()
	var k Key
	found := false
	for try := 0; try < 8 && !found; try++ {
		k = Key{T: g.r.Intn(g.ft.NT), Name: g.name()}
		found = len(g.m.AllProv(s, k)) == 0 && g.m.S[s].Dec[k] == nil
	}
	if !found {
		return
	}
	d := g.newFunc(RoleDec)
	d.Params = []Param{keyParam(k)}
	d.Results = []Result{keyResult(k)}
	d.HasErr = g.r.P(0.5)
	d.Callback = g.ft.Callbacks && g.r.P(0.5)
	i := g.addOp(Op{Kind: OpDecorate, Scope: s, Fn: d.ID, Tag: "decorate-first"})
	if g.m.PredictDecorate(s, d) == PredOK {
		g.m.AddDec(s, i, d)
	}
	for n := g.r.Intn(3); n > 0; n-- {
		g.opProvide(g.pickScope())
	}
	// the provider: same scope, an ancestor, or exported from anywhere
	path := g.m.Path(s)
	ps := path[g.r.Intn(len(path))]
	f := g.newFunc(RoleCtor)
	f.Results = []Result{{Kind: RSingle, T: k.T}}
	f.OptName = k.Name
	f.HasErr = g.r.P(0.5)
	if g.ft.Export && len(g.m.S) > 1 && g.r.P(0.25) {
		ps = 1 + g.r.Intn(len(g.m.S)-1)
		f.Export = true
	}
	i = g.addOp(Op{Kind: OpProvide, Scope: ps, Fn: f.ID, Tag: "decorate-first"})
	if g.m.PredictProvide(ps, f) == PredOK {
		g.m.AddCtor(ps, i, f)
	}
	// request it from the decorator's scope or below
	sub := g.m.Subtree(s)
	inv := g.newFunc(RoleInv)
	inv.Params = []Param{keyParam(k)}
	g.addOp(Op{Kind: OpInvoke, Scope: sub[g.r.Intn(len(sub))], Fn: inv.ID, Tag: "decorate-first"})
}

// tmplSoftMix: a multi-result constructor feeds a group and provides a single
// value; a consumer asks for the group softly next to (in any field order, at
// any nesting) a field that needs the single value: the feeder's member must
// be there although the soft field alone would never have run it.
func (g *genCtx) tmplSoftMix() {
	if len(g.ft.Groups) == 0 || g.ft.NT < 2 {
		return
	}
	s := g.pickScope()
	path := g.m.Path(s)
	fs := path[g.r.Intn(len(path))]
	grp := g.group()
	p := g.r.Perm(g.ft.NT)
	a, m := p[0], p[1]
	ka := Key{T: a, Name: g.name()}
	if len(g.m.S[fs].Prov[ka]) > 0 {
		return
	}
	f := g.newFunc(RoleCtor)
	member := Result{Kind: RGroup, T: m, Group: grp, Flatten: g.ft.Flatten && g.r.P(0.3)}
	single := Result{Kind: RSingle, T: a, Name: ka.Name}
	fields := []Result{member, single}
	if g.r.P(0.5) {
		fields = []Result{single, member}
	}
	f.Results = []Result{{Kind: RObj, Fields: fields}}
	f.HasErr = g.r.P(0.5)
	i := g.addOp(Op{Kind: OpProvide, Scope: fs, Fn: f.ID, Tag: "soft-mix"})
	if g.m.PredictProvide(fs, f) == PredOK {
		g.m.AddCtor(fs, i, f)
	}
	soft := Param{Kind: PGroup, T: m, Group: grp, Soft: true}
	need := Param{Kind: PSingle, T: a, Name: ka.Name, Opt: g.r.P(0.2)}
	var other Param
	switch g.r.Intn(3) {
	case 0:
		other = need
	case 1:
		other = Param{Kind: PObj, Fields: []Param{need}}
	default:
		// the nested object has a soft group of its own
		inner := []Param{need, {Kind: PGroup, T: m, Group: g.group(), Soft: true}}
		if g.r.P(0.5) {
			inner[0], inner[1] = inner[1], inner[0]
		}
		other = Param{Kind: PObj, Fields: inner}
	}
	obj := []Param{soft, other}
	if g.r.P(0.5) {
		obj = []Param{other, soft}
	}
	inv := g.newFunc(RoleInv)
	inv.Params = []Param{{Kind: PObj, Fields: obj}}
	if g.r.P(0.3) {
		// the same shape as a constructor's parameter object
		c := g.newFunc(RoleCtor)
		c.Params = inv.Params
		rt := p[g.r.Intn(len(p))]
		c.Results = []Result{{Kind: RSingle, T: rt}}
		c.OptName = "n2"
		i := g.addOp(Op{Kind: OpProvide, Scope: s, Fn: c.ID, Tag: "soft-mix"})
		if g.m.PredictProvide(s, c) == PredOK {
			g.m.AddCtor(s, i, c)
		}
		inv.Params = []Param{{Kind: PObj, Fields: []Param{{Kind: PSingle, T: rt, Name: "n2"}}}}
	}
	g.addOp(Op{Kind: OpInvoke, Scope: s, Fn: inv.ID, Tag: "soft-mix"})
}

// tmplSliceMembers: a value group whose members are themselves slices
// ([]*K, some of them empty or nil), fed by plain and flatten results
// (option or tag) from several scopes, requested, fed once more, requested
// again.
func (g *genCtx) tmplSliceMembers() {
	if len(g.ft.Groups) == 0 {
		return
	}
	grp := g.group()
	t := TSlice + g.r.Intn(g.ft.NT)
	s := g.pickScope()
	path := g.m.Path(s)
	feeder := func() {
		fs := path[g.r.Intn(len(path))]
		f := g.newFunc(RoleCtor)
		flatten := g.ft.Flatten && g.r.P(0.35)
		if g.r.P(0.5) {
			f.Results = []Result{{Kind: RSingle, T: t}}
			f.OptGroup, f.OptFlatten = grp, flatten
		} else {
			f.Results = []Result{{Kind: RObj, Fields: []Result{{Kind: RGroup, T: t, Group: grp, Flatten: flatten}}}}
		}
		f.HasErr = g.r.P(0.5)
		if g.ft.Export && fs != 0 && g.r.P(0.2) {
			f.Export = true
		}
		i := g.addOp(Op{Kind: OpProvide, Scope: fs, Fn: f.ID, Tag: "slice-members"})
		if g.m.PredictProvide(fs, f) == PredOK {
			g.m.AddCtor(fs, i, f)
		}
	}
	request := func() {
		sub := g.m.Subtree(s)
		inv := g.newFunc(RoleInv)
		inv.Params = []Param{{Kind: PObj, Fields: []Param{{Kind: PGroup, T: t, Group: grp}}}}
		g.addOp(Op{Kind: OpInvoke, Scope: sub[g.r.Intn(len(sub))], Fn: inv.ID, Tag: "slice-members"})
	}
	for n := g.r.Range(1, 4); n > 0; n-- {
		feeder()
	}
	if (g.ft.GroupDecs || g.ft.Soft) && g.r.P(0.5) {
		// the same group *name* with element types T and []T: two different
		// groups. The one of []T is decorated; the one of T has feeders of its
		// own and is consumed softly and in full, before and after the
		// decorated one was built.
		base := t - TSlice
		ds := path[g.r.Intn(len(path))]
		dt := t
		if g.r.P(0.5) {
			dt = base // ... or the other way round: the group of T is the decorated one
		}
		dec := g.newFunc(RoleDec)
		dec.Params = []Param{{Kind: PObj, Fields: []Param{{Kind: PGroup, T: dt, Group: grp}}}}
		dec.Results = []Result{{Kind: RObj, Fields: []Result{{Kind: RGroup, T: dt, Group: grp}}}}
		dec.HasErr = g.r.P(0.3)
		i := g.addOp(Op{Kind: OpDecorate, Scope: ds, Fn: dec.ID, Tag: "slice-members"})
		if g.m.PredictDecorate(ds, dec) == PredOK {
			g.m.AddDec(ds, i, dec)
		}
		for n := g.r.Range(0, 2); n > 0; n-- {
			fs := path[g.r.Intn(len(path))]
			f := g.newFunc(RoleCtor)
			f.Results = []Result{{Kind: RObj, Fields: []Result{{Kind: RGroup, T: base, Group: grp}}}}
			f.HasErr = g.r.P(0.5)
			j := g.addOp(Op{Kind: OpProvide, Scope: fs, Fn: f.ID, Tag: "slice-members"})
			if g.m.PredictProvide(fs, f) == PredOK {
				g.m.AddCtor(fs, j, f)
			}
		}
		ask := func(soft bool) {
			sub := g.m.Subtree(s)
			inv := g.newFunc(RoleInv)
			inv.Params = []Param{{Kind: PObj, Fields: []Param{{Kind: PGroup, T: base, Group: grp, Soft: soft}}}}
			g.addOp(Op{Kind: OpInvoke, Scope: sub[g.r.Intn(len(sub))], Fn: inv.ID, Tag: "slice-members"})
		}
		ask(true)
		if g.r.P(0.5) {
			request()
			ask(g.r.P(0.5))
		} else {
			ask(false)
		}
	}
	request()
	if g.r.P(0.6) {
		feeder()
		request()
	}
}

// oneObject puts every leaf parameter into a single flat parameter object.
func oneObject(ps []Param) []Param {
	var leaves []Param
	collectParams(ps, &leaves)
	return []Param{{Kind: PObj, Fields: leaves}}
}

// reenterShape decides what the re-entrant function asks for: its own first
// result (default), or -- a nested demand through a different path -- any key
// from any scope; from its body, or from its callback if it has one.
func (g *genCtx) reenterShape(f *Func, s int) {
	if g.r.P(0.5) {
		rs := g.pickScope()
		if ks := g.pickParamKeys(rs, g.ft.NT, 1, true); len(ks) == 1 {
			k := ks[0]
			f.ReKey, f.ReScope = &k, rs
		}
	}
	f.ReCB = g.r.P(0.4)
	if f.ReCB {
		f.Callback = true
	}
}

// tmplGroupFailure (declared functions only): three or four constructors feed
// one value group, one of them -- most often the last one registered -- fails;
// the group is requested and the error is handed to Visualize.
func (g *genCtx) tmplGroupFailure() {
	if !g.ft.Catalog || len(catSpecs) == 0 {
		return
	}
	s := g.pickScope()
	path := g.m.Path(s)
	cands := map[Key][]int{}
	var order []Key
	for _, idx := range g.r.Perm(catCtors) {
		spec := &catSpecs[idx]
		if g.catUsed[idx] || !g.depsVisible(s, spec) {
			continue
		}
		free := true
		for _, k := range singleKeys(spec.LeafResults()) {
			for _, x := range path {
				if len(g.m.S[x].Prov[k]) > 0 {
					free = false
				}
			}
		}
		if !free {
			continue
		}
		for _, r := range spec.LeafResults() {
			for _, k := range r.Keys {
				if k.IsGroup() {
					if len(cands[k]) == 0 {
						order = append(order, k)
					}
					cands[k] = append(cands[k], idx)
				}
			}
		}
	}
	for _, k := range order {
		if len(cands[k]) < 3 {
			continue
		}
		n := g.r.Range(3, 4)
		if n > len(cands[k]) {
			n = len(cands[k])
		}
		var fns []int
		used := map[Key]bool{}
		for _, idx := range cands[k] {
			if len(fns) == n {
				break
			}
			clash := g.catUsed[idx]
			for _, sk := range singleKeys(catSpecs[idx].LeafResults()) {
				clash = clash || used[sk]
			}
			if clash {
				continue
			}
			for _, sk := range singleKeys(catSpecs[idx].LeafResults()) {
				used[sk] = true
			}
			f := g.fromCatalog(idx)
			ps := path[g.r.Intn(len(path))]
			i := g.addOp(Op{Kind: OpProvide, Scope: ps, Fn: f.ID, Tag: "group-failure"})
			if g.m.PredictProvide(ps, f) == PredOK {
				g.m.AddCtor(ps, i, f)
			}
			fns = append(fns, f.ID)
		}
		if len(fns) < 3 {
			return
		}
		bad := fns[len(fns)-1]
		if g.r.P(0.3) {
			bad = fns[g.r.Intn(len(fns))]
		}
		g.h.Faults = append(g.h.Faults, Fault{Fn: bad, From: 0, To: -1, Kind: FaultKind(g.r.Range(1, 3))})
		inv := g.newFunc(RoleInv)
		inv.Params = []Param{{Kind: PObj, Fields: []Param{{Kind: PGroup, T: k.T, Group: k.Group}}}}
		g.addOp(Op{Kind: OpInvoke, Scope: s, Fn: inv.ID, Tag: "group-failure"})
		g.addOp(Op{Kind: OpVisualize, ErrFrom: len(g.h.Ops)})
		return
	}
}

// tmplDeepChain: a dependency path of many distinct constructors -- continued
// through the child scopes of one branch, where keys of the outer levels may
// be provided again -- whose bottom link fails (injected fault) or lacks a
// dependency. The Invoke at the far end walks the whole path; the failure is
// visualized and the Invoke retried (root cause and transitive failures, error
// chains, rollback and retry on paths far longer than random registration
// produces). Declared functions where the run uses the catalogue (the chain
// links of chainSpecs), reflect-made ones otherwise.
func (g *genCtx) tmplDeepChain() {
	if g.ft.Catalog && len(catSpecs) == 0 {
		return
	}
	s := 0
	for x := range g.m.S {
		if g.m.Depth(x) > g.m.Depth(s) {
			s = x
		}
	}
	path := g.m.Path(s) // s first, root last
	want := g.r.Range(4, 22)
	missing := g.r.P(0.3)
	var chain []int
	var last Key
	for li := len(path) - 1; li >= 0 && len(chain) < want; li-- {
		sc := path[li]
		perLevel := g.r.Range(2, 9)
		if li == 0 {
			perLevel = want
		}
		for n := 0; n < perLevel && len(chain) < want; n++ {
			var f *Func
			if g.ft.Catalog {
				idx := g.chainLink(sc, last, len(chain) > 0, missing && len(chain) == 0)
				if idx < 0 {
					break
				}
				f = g.fromCatalog(idx)
			} else if f = g.dynLink(sc, last, len(chain) > 0, missing && len(chain) == 0); f == nil {
				break
			}
			i := g.addOp(Op{Kind: OpProvide, Scope: sc, Fn: f.ID, Tag: "deep-chain"})
			g.m.AddCtor(sc, i, f)
			chain = append(chain, f.ID)
			ks := singleKeys(f.LeafResults())
			last = ks[g.r.Intn(len(ks))]
		}
	}
	if len(chain) < 3 {
		return
	}
	if !missing {
		bad := chain[0]
		if g.r.P(0.3) {
			bad = chain[g.r.Intn(len(chain))]
		}
		to := -1
		if g.r.P(0.4) {
			to = 1 // transient: the retry below succeeds
		}
		g.h.Faults = append(g.h.Faults, Fault{Fn: bad, From: 0, To: to, Kind: FaultKind(g.r.Range(1, 3))})
	}
	inv := g.newFunc(RoleInv)
	inv.Params = []Param{{Kind: PObj, Fields: []Param{{Kind: PSingle, T: last.T, Name: last.Name}}}}
	g.addOp(Op{Kind: OpInvoke, Scope: s, Fn: inv.ID, Tag: "deep-chain"})
	if g.ft.Catalog || g.r.P(0.3) {
		g.addOp(Op{Kind: OpVisualize, ErrFrom: len(g.h.Ops)})
	}
	if g.r.P(0.5) {
		g.retryInvoke(s, inv.ID)
	}
}

// dynLink: a reflect-made constructor func(last) (k[, error]) for a single key
// k that is still free in sc (bottom link: no parameter, or -- wantMissing --
// one that nobody visible from sc provides).
func (g *genCtx) dynLink(sc int, last Key, cont, wantMissing bool) *Func {
	names := append([]string{""}, g.ft.Names...)
	var free, absent []Key
	for t := 0; t < g.ft.NT; t++ {
		for _, n := range names {
			k := Key{T: t, Name: n}
			if len(g.m.S[sc].Prov[k]) == 0 && (!cont || k != last) {
				free = append(free, k)
			}
			if len(g.m.AllProv(sc, k)) == 0 {
				absent = append(absent, k)
			}
		}
	}
	single := func(k Key) Param {
		p := Param{Kind: PSingle, T: k.T, Name: k.Name}
		if k.Name != "" {
			p = Param{Kind: PObj, Fields: []Param{p}}
		}
		return p
	}
	var params []Param
	switch {
	case cont:
		params = []Param{single(last)}
	case wantMissing:
		if len(absent) < 2 {
			return nil
		}
		params = []Param{single(absent[g.r.Intn(len(absent))])}
	}
	for _, i := range g.r.Perm(len(free)) {
		k := free[i]
		if len(params) > 0 && params[0].Kind == PSingle && params[0].T == k.T && params[0].Name == k.Name {
			continue
		}
		r := Result{Kind: RSingle, T: k.T, Name: k.Name}
		if k.Name != "" {
			r = Result{Kind: RObj, Fields: []Result{r}}
		}
		tmp := Func{ID: -1, Cat: -1, Role: RoleCtor, Params: params, Results: []Result{r}}
		if wantMissing && !cont {
			if lp := tmp.LeafParams(); len(lp) == 1 && lp[0].Key == k {
				continue
			}
		}
		if g.m.PredictProvide(sc, &tmp) != PredOK {
			continue
		}
		f := g.newFunc(RoleCtor)
		f.Params, f.Results = params, []Result{r}
		f.HasErr = g.r.P(0.6)
		f.Callback = g.ft.Callbacks && g.r.P(0.3)
		return f
	}
	return nil
}

// chainLink picks an unused declared constructor that can be registered in sc,
// requires the key `last` (when cont) and otherwise only what is visible from
// sc -- or, for the bottom link of a "missing" chain, lacks something.
// Constructors whose only required dependency is `last` are preferred, so that
// the failure the Invoke meets is the one at the bottom of the chain.
func (g *genCtx) chainLink(sc int, last Key, cont, wantMissing bool) int {
	second := -1
	for _, idx := range g.r.Perm(catCtors + catChain) {
		if idx >= catCtors {
			idx += catDecs + catInvs // the chain links come behind the seeded ranges
		}
		spec := &catSpecs[idx]
		if g.catUsed[idx] || spec.Export || len(singleKeys(spec.LeafResults())) == 0 {
			continue
		}
		req, usesLast := 0, false
		for _, p := range spec.LeafParams() {
			if p.Key.IsGroup() || p.Opt {
				continue
			}
			req++
			if cont && p.Key == last {
				usesLast = true
			}
		}
		if cont && !usesLast {
			continue
		}
		if wantMissing == g.depsVisible(sc, spec) {
			continue
		}
		if !cont && !wantMissing && req > 1 {
			continue
		}
		tmp := deepCopyFunc(spec)
		tmp.ID, tmp.Cat = -1, idx
		if g.m.PredictProvide(sc, &tmp) != PredOK {
			continue
		}
		if req <= 1 {
			return idx
		}
		if second < 0 {
			second = idx
		}
	}
	return second
}

// tmplHeal: what a constructor lacked appears later. A constructor C(D) -> R is
// registered in a scope X (often exported, often two or more levels down)
// while nobody X can see provides D; R is requested (mostly through an
// optional field, from a scope that can see C); then D is registered in X or
// in one of its ancestors (with or without Export) and R is requested again.
// Whatever an earlier, given-up resolution left behind must not outlive the
// registration that fills the gap (C04, C08, C03, C07).
func (g *genCtx) tmplHeal() {
	if g.ft.Catalog {
		return
	}
	x := 0
	for s := range g.m.S {
		if g.m.Depth(s) > g.m.Depth(x) {
			x = s
		}
	}
	for g.m.Depth(x) < 2 && len(g.m.S) < 8 && g.r.P(0.8) {
		g.addOp(Op{Kind: OpScope, Scope: x})
		x = g.m.AddScope(x)
	}
	path := g.m.Path(x)
	if g.r.P(0.25) {
		x = path[g.r.Intn(len(path))]
		path = g.m.Path(x)
	}
	names := append([]string{""}, g.ft.Names...)
	var absent, free []Key
	for t := 0; t < g.ft.NT; t++ {
		for _, n := range names {
			k := Key{T: t, Name: n}
			if len(g.m.AllProv(x, k)) == 0 {
				absent = append(absent, k)
			}
			if len(g.m.S[x].Prov[k]) == 0 && len(g.m.S[0].Prov[k]) == 0 {
				free = append(free, k)
			}
		}
	}
	if len(absent) == 0 || len(free) < 2 {
		return
	}
	d := absent[g.r.Intn(len(absent))]
	var rk Key
	found := false
	for _, i := range g.r.Perm(len(free)) {
		if free[i] != d {
			rk, found = free[i], true
			break
		}
	}
	if !found {
		return
	}
	single := func(k Key, opt bool) Param {
		return Param{Kind: PObj, Fields: []Param{{Kind: PSingle, T: k.T, Name: k.Name, Opt: opt}}}
	}
	result := func(k Key) Result {
		r := Result{Kind: RSingle, T: k.T, Name: k.Name}
		if k.Name != "" {
			r = Result{Kind: RObj, Fields: []Result{r}}
		}
		return r
	}
	provide := func(sc int, params []Param, k Key, export bool) bool {
		tmp := Func{ID: -1, Cat: -1, Role: RoleCtor, Params: params, Results: []Result{result(k)}, Export: export && sc != 0}
		if g.m.PredictProvide(sc, &tmp) != PredOK {
			return false
		}
		f := g.newFunc(RoleCtor)
		f.Params, f.Results, f.Export = tmp.Params, tmp.Results, tmp.Export
		f.HasErr = g.r.P(0.3)
		f.Callback = g.ft.Callbacks && g.r.P(0.3)
		i := g.addOp(Op{Kind: OpProvide, Scope: sc, Fn: f.ID, Tag: "heal"})
		g.m.AddCtor(sc, i, f)
		return true
	}
	exported := g.r.P(0.5)
	if !provide(x, []Param{single(d, false)}, rk, exported) {
		return
	}
	exported = exported && x != 0
	ask := func() {
		var from []int
		for y := range g.m.S {
			if exported || g.m.IsAnc(x, y) {
				from = append(from, y)
			}
		}
		inv := g.newFunc(RoleInv)
		inv.Params = []Param{single(rk, g.r.P(0.7))}
		g.addOp(Op{Kind: OpInvoke, Scope: from[g.r.Intn(len(from))], Fn: inv.ID, Tag: "heal"})
	}
	ask()
	if g.r.P(0.3) {
		ask()
	}
	z := path[g.r.Intn(len(path))]
	if !provide(z, nil, d, g.r.P(0.3)) {
		return
	}
	ask()
	if g.r.P(0.5) {
		ask()
	}
}

// tmplSiblingRejections: a Provide to a parent that is acyclic in the parent and
// in an earlier-created child but closes a cycle in the view of a later-created
// sibling (rejected); right after it, a Provide to the earlier child that
// closes a cycle there (must be rejected as well), then the earlier child's
// keys are requested. Whatever a verification remembers about a scope's graph
// must not survive a rejection found in another scope.
func (g *genCtx) tmplSiblingRejections() {
	if g.ft.NT < 4 || g.h.Cfg.Defer {
		return
	}
	parent := g.pickScope()
	g.addOp(Op{Kind: OpScope, Scope: parent, Tag: "tmpl"})
	c1 := g.m.AddScope(parent)
	g.addOp(Op{Kind: OpScope, Scope: parent, Tag: "tmpl"})
	c2 := g.m.AddScope(parent)
	p := g.r.Perm(g.ft.NT)
	k1, k2, k3, k4 := p[0], p[1], p[2], p[3]
	// earlier child: half of a cycle, accepted
	g.simpleCtor(c1, []int{k4}, k3, false, "sibling-rejections")
	// later child: a private provider that makes the parent's next registration cyclic in its view only
	g.simpleCtor(c2, []int{k2}, k1, false, "sibling-rejections")
	for n := g.r.Intn(3); n > 0; n-- {
		g.opProvide([]int{parent, c1, c2}[g.r.Intn(3)])
	}
	g.simpleCtor(parent, []int{k1}, k2, false, "sibling-rejections") // rejected: cycle in c2's view
	// the very next verified registration closes the cycle in the earlier child
	g.simpleCtor(c1, []int{k3}, k4, false, "sibling-rejections") // must be rejected
	g.simpleInvoke(c1, []int{[]int{k3, k4}[g.r.Intn(2)]}, "sibling-rejections")
	if g.r.P(0.5) {
		g.simpleCtor(parent, nil, k2, false, "sibling-rejections") // the rejected key is still free
		g.simpleInvoke(c2, []int{k1}, "sibling-rejections")
	}
}

// tmplDeepSiblingGroups: a chain root -> a -> b with two sibling leaves x and y
// under b. A value group G is fed from the root (and from b); x and y each
// decorate G. x consumes another group H, then y consumes H, then x consumes G
// for the first time, then y does: each sibling must see the decoration of its
// own scope, whatever its sibling resolved in between (per-scope chains of
// enclosing scopes must not share state between siblings).
func (g *genCtx) tmplDeepSiblingGroups() {
	if g.ft.NT < 2 || g.ft.Catalog {
		return
	}
	grpG, grpH := "g1", "g2"
	if len(g.ft.Groups) > 0 {
		grpG = g.ft.Groups[0]
		if len(g.ft.Groups) > 1 {
			grpH = g.ft.Groups[1]
		}
	}
	newScope := func(parent int) int {
		g.addOp(Op{Kind: OpScope, Scope: parent, Tag: "tmpl"})
		return g.m.AddScope(parent)
	}
	a := newScope(0)
	b := newScope(a)
	x := newScope(b)
	y := newScope(b)
	p := g.r.Perm(g.ft.NT)
	tG, tH := p[0], p[1]
	feed := func(s, t int, grp string) {
		f := g.newFunc(RoleCtor)
		f.Results = []Result{{Kind: RObj, Fields: []Result{{Kind: RGroup, T: t, Group: grp}}}}
		f.HasErr = g.r.P(0.3)
		i := g.addOp(Op{Kind: OpProvide, Scope: s, Fn: f.ID, Tag: "deep-siblings"})
		if g.m.PredictProvide(s, f) == PredOK {
			g.m.AddCtor(s, i, f)
		}
	}
	decorate := func(s, t int, grp string) {
		f := g.newFunc(RoleDec)
		f.Params = []Param{{Kind: PObj, Fields: []Param{{Kind: PGroup, T: t, Group: grp}}}}
		f.Results = []Result{{Kind: RObj, Fields: []Result{{Kind: RGroup, T: t, Group: grp}}}}
		i := g.addOp(Op{Kind: OpDecorate, Scope: s, Fn: f.ID, Tag: "deep-siblings"})
		if g.m.PredictDecorate(s, f) == PredOK {
			g.m.AddDec(s, i, f)
		}
	}
	ask := func(s, t int, grp string) {
		inv := g.newFunc(RoleInv)
		inv.Params = []Param{{Kind: PObj, Fields: []Param{{Kind: PGroup, T: t, Group: grp}}}}
		g.addOp(Op{Kind: OpInvoke, Scope: s, Fn: inv.ID, Tag: "deep-siblings"})
	}
	feed(0, tG, grpG)
	if g.r.P(0.5) {
		feed(b, tG, grpG)
	}
	feed([]int{0, a, b}[g.r.Intn(3)], tH, grpH)
	decorate(x, tG, grpG)
	if g.r.P(0.7) {
		decorate(y, tG, grpG)
	}
	if g.r.P(0.3) {
		decorate([]int{a, b}[g.r.Intn(2)], tG, grpG)
	}
	first, second := x, y
	if g.r.P(0.5) {
		first, second = y, x
	}
	ask(first, tH, grpH)
	ask(second, tH, grpH)
	ask(first, tG, grpG)
	ask(second, tG, grpG)
}
