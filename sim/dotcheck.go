package sim

import (
	"fmt"
	"html"
	"regexp"
	"sort"
	"strconv"
	"strings"
)

// C19: Visualize is a faithful, well-formed picture of the container.

var catLabel = regexp.MustCompile(`^Cat(\d+)$`)

// invSummary is what the error-mode oracle needs to know about a failed Invoke.
type invSummary struct {
	op          int
	scope       int
	lp          []LeafParam
	verdict     Verdict
	canVis      bool
	invEntered  bool
	firstFail   int // first failing function (-1 none)
	executed    map[int]bool
	builtBefore map[int]bool
	missingInv  []Key // required keys of the invoked function without any visible provider
	hasDecs     bool
}

func (c *Checked) summariseInvoke(i int, op Op, res *OpResult, evs []Event) {
	if !c.modelOK() {
		return
	}
	f := &c.H.Funcs[op.Fn]
	s := &invSummary{op: i, scope: op.Scope, lp: f.LeafParams(), verdict: res.Verdict, canVis: res.Facts.CanVis, firstFail: -1,
		executed: map[int]bool{}, builtBefore: map[int]bool{}, hasDecs: len(c.M.DByFn) > 0}
	for fn, n := range c.M.ByFn {
		if n.Built {
			s.builtBefore[fn] = true
		}
	}
	for _, e := range evs {
		if e.Kind == EvEnter {
			if e.Fn == f.ID {
				s.invEntered = true
			} else {
				s.executed[e.Fn] = true
			}
		}
		if e.Kind == EvExit && e.Out != OutOK && s.firstFail < 0 {
			s.firstFail = e.Fn
		}
	}
	for _, p := range s.lp {
		if !p.Key.IsGroup() && !p.Opt && len(c.M.AllProv(op.Scope, p.Key)) == 0 {
			s.missingInv = append(s.missingInv, p.Key)
		}
	}
	if c.lastInv == nil {
		c.lastInv = map[int]*invSummary{}
	}
	c.lastInv[i] = s
	// CanVisualizeError is true exactly when failure information exists:
	// a missing type or a parameter / group that could not be built.
	if res.Verdict == VOK || res.Facts.Escaped || s.hasDecs {
		return
	}
	c.probe("canvis_checked")
	switch {
	case s.invEntered:
		// the invoked function itself failed: nothing to draw
		if res.Facts.CanVis {
			c.viol(i, "canvis-true-for-invoked-function-failure", "CanVisualizeError is true although the invoked function itself failed", "C19")
		}
	case res.Verdict == VCycle:
		if res.Facts.CanVis {
			c.viol(i, "canvis-true-for-cycle", "CanVisualizeError is true for a cycle rejection", "C19")
		}
	case len(s.missingInv) > 0 || s.firstFail >= 0:
		if !res.Facts.CanVis {
			c.viol(i, "canvis-false", fmt.Sprintf("CanVisualizeError is false although the Invoke failed on a missing type or a failing constructor: %s", firstLine(res.Facts.Text)), "C19")
		}
	}
}

func dotUnquote(s string) string {
	if u, err := strconv.Unquote(`"` + s + `"`); err == nil {
		return u
	}
	return s
}

// checkDot validates the output of a Visualize op.
func (c *Checked) checkDot(i int, op Op, res *OpResult) {
	if res.Facts.Escaped || !res.Facts.Nil {
		if !res.Facts.Escaped {
			c.viol(i, "visualize-error", "Visualize returned an error: "+res.Facts.Text, "C19")
		}
		return
	}
	g, err := ParseDot(res.Dot)
	if err != nil {
		c.viol(i, "dot-syntax", fmt.Sprintf("Visualize output is not valid DOT: %v", err), "C19")
		return
	}
	c.probe("dot_parsed")
	if !c.modelOK() || c.H.Cfg.DryRun {
		return
	}
	errMode := op.ErrFrom > 0 && op.ErrFrom-1 < len(c.R.Res) && c.R.Res[op.ErrFrom-1].Verdict != VOK && !c.R.Res[op.ErrFrom-1].Facts.Escaped
	if errMode && !c.R.Res[op.ErrFrom-1].Facts.CanVis {
		// an error that carries nothing to visualize (the invoked function's
		// own error, a foreign error): the picture is the one of the container
		errMode = false
		c.probe("dot_error_without_info")
	}
	// clusters by catalogue function
	byCat := map[int]*dotCl{}
	for ci := range g.Clusters {
		k := &g.Clusters[ci]
		if len(k.Nodes) == 0 {
			c.viol(i, "dot-empty-cluster", fmt.Sprintf("cluster %s has no nodes", k.Name), "C19")
			continue
		}
		// the constructor's own node is the one labelled with the declared
		// function's name, wherever it stands among the cluster's statements
		// (the order of statements means nothing in DOT)
		ctorAt := -1
		var m []string
		for pos, ni := range k.Nodes {
			if mm := catLabel.FindStringSubmatch(dotUnquote(g.Nodes[ni].Attrs["label"])); mm != nil && !strings.HasPrefix(g.Nodes[ni].Attrs["label"], "<") {
				ctorAt, m = pos, mm
				break
			}
		}
		if ctorAt < 0 {
			continue // not a catalogue function (e.g. from the malformed grammar)
		}
		first := g.Nodes[k.Nodes[ctorAt]]
		cat, _ := strconv.Atoi(m[1])
		if _, dup := byCat[cat]; dup {
			c.viol(i, "dot-duplicate-cluster", fmt.Sprintf("two clusters for constructor Cat%d", cat), "C19")
			continue
		}
		x := &dotCl{idx: ci, label: first.ID, color: k.Attrs["color"]}
		for pos, ni := range k.Nodes {
			if pos != ctorAt {
				x.nodes = append(x.nodes, g.Nodes[ni])
			}
		}
		byCat[cat] = x
	}
	// accepted catalogue constructors of every scope
	accepted := map[int]*MCtor{}
	for _, sc := range c.M.S {
		for _, n := range sc.Ctors {
			if f := &c.H.Funcs[n.Fn]; f.Cat >= 0 {
				accepted[f.Cat] = n
			}
		}
	}
	if errMode {
		c.checkDotError(i, op, g, byCatColors(byCat), func(cat int) *MCtor { return accepted[cat] })
		c.checkDotErrorGroups(i, op, g, byCat, func(cat int) *MCtor { return accepted[cat] })
		return
	}
	c.probe("dot_structure_checked")
	for cat := range byCat {
		if accepted[cat] == nil {
			c.viol(i, "dot-cluster-for-unregistered", fmt.Sprintf("cluster for Cat%d which is not an accepted constructor", cat), "C19", "C06")
		}
	}
	var cats []int
	for cat := range accepted {
		cats = append(cats, cat)
	}
	sort.Ints(cats)
	// learn node ids: i-th node statement of a cluster = i-th declared result
	idsOfKey := map[Key]map[string]bool{}
	members := map[Key][]string{}
	for _, cat := range cats {
		n := accepted[cat]
		x := byCat[cat]
		if x == nil {
			c.viol(i, "dot-cluster-missing", fmt.Sprintf("accepted constructor Cat%d (f%d) has no cluster", cat, n.Fn), "C19")
			continue
		}
		var keys []Key
		for _, r := range n.LR {
			keys = append(keys, r.Keys...)
		}
		if len(keys) != len(x.nodes) {
			c.viol(i, "dot-result-nodes", fmt.Sprintf("cluster of Cat%d holds %d result nodes, the constructor declares %d results", cat, len(x.nodes), len(keys)), "C19")
			continue
		}
		rn := resultNodes(x.nodes, keys)
		for j, k := range keys {
			if idsOfKey[k] == nil {
				idsOfKey[k] = map[string]bool{}
			}
			idsOfKey[k][rn[j].ID] = true
			if k.IsGroup() {
				members[k] = append(members[k], rn[j].ID)
			}
		}
		if x.color != "" {
			c.viol(i, "dot-color-without-error", fmt.Sprintf("cluster of Cat%d is coloured %s although no error was given", cat, x.color), "C19")
		}
	}
	// edges
	edgesFrom := map[string][]DotEdge{}
	for _, e := range g.Edges {
		edgesFrom[e.From] = append(edgesFrom[e.From], e)
	}
	idOfUnprovided := map[Key]string{}
	groupNode := map[Key]string{}
	for _, cat := range cats {
		n := accepted[cat]
		x := byCat[cat]
		if x == nil {
			continue
		}
		var singles, groups []LeafParam
		for _, p := range n.LP {
			if p.Key.IsGroup() {
				groups = append(groups, p)
			} else {
				singles = append(singles, p)
			}
		}
		es := edgesFrom[x.label]
		if len(es) != len(singles)+len(groups) {
			c.viol(i, "dot-edge-count", fmt.Sprintf("Cat%d declares %d dependencies, the graph has %d edges from it", cat, len(singles)+len(groups), len(es)), "C19")
			continue
		}
		// The order of edge statements means nothing in DOT: if the edges can
		// be assigned to the declared dependencies at all (dashed iff
		// optional, a provided key's edge ends at one of its nodes, a group's
		// edge ends at a group node), they are checked in that assignment;
		// otherwise in the order they were written, which names what is wrong.
		if perm := assignEdges(es, singles, groups, idsOfKey, diamondsOf(g), inAnyCluster(g)); perm != nil {
			es = perm
		}
		for j, p := range singles {
			e := es[j]
			dashed := strings.Contains(e.Attrs["style"], "dashed")
			if dashed != p.Opt {
				c.viol(i, "dot-dashed", fmt.Sprintf("Cat%d dependency %d (%s): optional=%v but dashed=%v", cat, j, p.Key, p.Opt, dashed), "C19")
			}
			if p.Opt {
				c.probe("dot_optional_edge")
			}
			if ids := idsOfKey[p.Key]; len(ids) > 0 {
				if !ids[e.To] {
					c.viol(i, "dot-edge-target", fmt.Sprintf("Cat%d dependency %d (%s) points to %q, not to a node of that key", cat, j, p.Key, e.To), "C19")
				}
			} else if prev, ok := idOfUnprovided[p.Key]; ok && prev != e.To {
				c.viol(i, "dot-edge-target", fmt.Sprintf("dependency on unprovided %s is drawn to %q and %q", p.Key, prev, e.To), "C19")
			} else {
				idOfUnprovided[p.Key] = e.To
			}
		}
		for j, p := range groups {
			e := es[len(singles)+j]
			if prev, ok := groupNode[p.Key]; ok && prev != e.To {
				c.viol(i, "dot-group-node", fmt.Sprintf("group %s is drawn as %q and %q", p.Key, prev, e.To), "C19")
			}
			groupNode[p.Key] = e.To
			c.probe("dot_group_edge")
		}
	}
	// one node per group, linked to each of its members
	diamonds := map[string]bool{}
	for _, n := range g.Nodes {
		if n.Cluster < 0 && n.Attrs["shape"] == "diamond" {
			if diamonds[n.ID] {
				c.viol(i, "dot-group-node", fmt.Sprintf("group node %q declared twice", n.ID), "C19")
			}
			diamonds[n.ID] = true
		}
	}
	var gkeys []Key
	for k := range members {
		gkeys = append(gkeys, k)
	}
	sort.Slice(gkeys, func(a, b int) bool { return keyLess(gkeys[a], gkeys[b]) })
	usedDiamond := map[string]Key{}
	for _, k := range gkeys {
		want := append([]string(nil), members[k]...)
		sort.Strings(want)
		// find the diamond whose out-edges are exactly the members
		found := ""
		for d := range diamonds {
			var got []string
			for _, e := range edgesFrom[d] {
				got = append(got, e.To)
			}
			sort.Strings(got)
			if eqStr(got, want) {
				found = d
				break
			}
		}
		if found == "" {
			c.viol(i, "dot-group-members", fmt.Sprintf("no group node is linked to exactly the %d members of %s", len(want), k), "C19")
			continue
		}
		if gn, ok := groupNode[k]; ok && gn != found {
			c.viol(i, "dot-group-node", fmt.Sprintf("consumers of %s point to %q but its members hang off %q", k, gn, found), "C19")
		}
		if other, ok := usedDiamond[found]; ok && other != k {
			c.viol(i, "dot-group-node", fmt.Sprintf("groups %s and %s share node %q", k, other, found), "C19")
		}
		usedDiamond[found] = k
		c.probe("dot_group_members_checked")
	}
	if len(cats) >= 3 {
		c.probe("dot_clusters>=3")
	}
}

type dotCl struct {
	idx   int
	label string
	color string
	nodes []DotNode
}

func byCatColors(m map[int]*dotCl) map[int]string {
	out := map[int]string{}
	for k, v := range m {
		out[k] = v.color
		if v.color == "" {
			out[k] = "none"
		}
	}
	return out
}

// checkDotError: the graph drawn for the error of a failed Invoke.
func (c *Checked) checkDotError(i int, op Op, g *DotGraph, colors map[int]string, accepted func(cat int) *MCtor) {
	s := c.lastInv[op.ErrFrom-1]
	if s == nil || s.hasDecs || op.ErrFrom-1 != i-1 || c.H.Ops[op.ErrFrom-1].Kind != OpInvoke {
		return
	}
	if !s.canVis {
		return
	}
	c.probe("dot_error_checked")
	m := c.M
	var red, orange []*MCtor
	for cat, col := range colors {
		n := accepted(cat)
		if n == nil {
			c.viol(i, "dot-cluster-for-unregistered", fmt.Sprintf("error graph has a cluster for Cat%d which is not an accepted constructor", cat), "C19")
			continue
		}
		switch col {
		case "red":
			red = append(red, n)
		case "orange":
			orange = append(orange, n)
		default:
			c.viol(i, "dot-error-unpruned", fmt.Sprintf("error graph keeps constructor Cat%d (f%d) which did not fail (colour %s)", cat, n.Fn, col), "C19")
		}
	}
	redIDs := map[string]bool{}
	for _, n := range g.Nodes {
		if n.Cluster < 0 && n.Attrs["color"] == "red" && n.Attrs["shape"] != "diamond" {
			redIDs[n.ID] = true
		}
	}
	redNodes := len(redIDs)
	// chain check: orange constructors must form a dependency chain from the
	// Invoke down to the failure
	consumes := func(cons Consumer, lp []LeafParam, target *MCtor) bool {
		for _, p := range lp {
			if p.Key.IsGroup() {
				for _, f := range m.Feeders(cons.Scope, p.Key) {
					if f == target {
						return true
					}
				}
				continue
			}
			if m.NearestProv(cons.Scope, p.Key) == target {
				return true
			}
		}
		return false
	}
	chainOK := func(chain []*MCtor, last *MCtor) bool {
		// is there an order o1..ok with Invoke -> o1 -> ... -> ok (-> last)?
		n := len(chain)
		used := make([]bool, n)
		var rec func(cons Consumer, lp []LeafParam, left int) bool
		rec = func(cons Consumer, lp []LeafParam, left int) bool {
			if left == 0 {
				return last == nil || consumes(cons, lp, last)
			}
			for j, x := range chain {
				if !used[j] && consumes(cons, lp, x) {
					used[j] = true
					if rec(Consumer{Scope: x.Origin, Fn: x.Fn}, x.LP, left-1) {
						return true
					}
					used[j] = false
				}
			}
			return false
		}
		return rec(Consumer{Scope: s.scope, Fn: -1}, s.lp, n)
	}
	for _, n := range append(append([]*MCtor(nil), red...), orange...) {
		if s.builtBefore[n.Fn] {
			c.viol(i, "dot-error-built-ctor", fmt.Sprintf("error graph marks f%d which had been built successfully before", n.Fn), "C19")
		}
	}
	if s.firstFail >= 0 {
		// a constructor failed: it is the root cause
		c.probe("dot_error_ctor_failure")
		fc := m.ByFn[s.firstFail]
		if fc == nil {
			return
		}
		if len(red) != 1 || red[0] != fc {
			c.viol(i, "dot-error-root-cause", fmt.Sprintf("constructor f%d failed; red clusters: %s", s.firstFail, fnList(red)), "C19")
			return
		}
		for _, o := range orange {
			if s.executed[o.Fn] {
				c.viol(i, "dot-error-transitive-ran", fmt.Sprintf("f%d is marked as a transitive failure but it executed", o.Fn), "C19")
			}
		}
		if !chainOK(orange, fc) {
			c.viol(i, "dot-error-transitive", fmt.Sprintf("transitive failures %s do not form a dependency chain from the Invoke to the failing f%d", fnList(orange), fc.Fn), "C19")
		}
		if len(orange) >= 1 {
			c.probe("dot_error_depth>=2")
		}
		if len(orange) >= 8 {
			c.probe("dot_error_depth>=9")
		}
		if len(orange) >= 16 {
			c.probe("dot_error_depth>=17")
		}
		return
	}
	// a missing type: red nodes are the missing keys, the consumers above orange
	c.probe("dot_error_missing")
	if len(red) != 0 {
		c.viol(i, "dot-error-root-cause", fmt.Sprintf("a type is missing but constructors %s are marked as root cause", fnList(red)), "C19")
	}
	if redNodes == 0 {
		c.viol(i, "dot-error-missing-not-marked", "no node is marked red although a type is missing", "C19")
	}
	if len(s.missingInv) > 0 {
		if len(orange) != 0 {
			c.viol(i, "dot-error-transitive", fmt.Sprintf("the invoked function's own dependency is missing, yet %s are marked", fnList(orange)), "C19")
		}
		if redNodes != len(uniqKeys(s.missingInv)) {
			c.viol(i, "dot-error-missing-count", fmt.Sprintf("%d missing types, %d red nodes", len(uniqKeys(s.missingInv)), redNodes), "C19")
		}
		return
	}
	if len(orange) == 0 {
		c.viol(i, "dot-error-transitive", "a dependency of a constructor is missing but no constructor is marked", "C19")
		return
	}
	// the deepest orange constructor must be the one with the missing direct dependency
	okChain := false
	for j, x := range orange {
		if !m.MissingShallow(Consumer{Scope: x.Origin, Fn: x.Fn}, x.LP) {
			continue
		}
		rest := append(append([]*MCtor(nil), orange[:j]...), orange[j+1:]...)
		if chainOK(rest, x) {
			okChain = true
			var miss []Key
			for _, p := range x.LP {
				if !p.Key.IsGroup() && !p.Opt && len(m.AllProv(x.Origin, p.Key)) == 0 {
					miss = append(miss, p.Key)
				}
			}
			if redNodes != len(uniqKeys(miss)) {
				c.viol(i, "dot-error-missing-count", fmt.Sprintf("f%d misses %d types, %d red nodes", x.Fn, len(uniqKeys(miss)), redNodes), "C19")
			}
			break
		}
	}
	if !okChain {
		c.viol(i, "dot-error-transitive", fmt.Sprintf("transitive failures %s do not form a dependency chain from the Invoke to a constructor with a missing dependency", fnList(orange)), "C19")
	}
	if len(orange) >= 2 {
		c.probe("dot_error_depth>=2")
	}
	if len(orange) >= 9 {
		c.probe("dot_error_depth>=9")
	}
	if len(orange) >= 17 {
		c.probe("dot_error_depth>=17")
	}
}

func uniqKeys(ks []Key) []Key {
	seen := map[Key]bool{}
	var out []Key
	for _, k := range ks {
		if !seen[k] {
			seen[k] = true
			out = append(out, k)
		}
	}
	return out
}

func fnList(ns []*MCtor) string {
	var parts []string
	for _, n := range ns {
		parts = append(parts, fmt.Sprintf("f%d", n.Fn))
	}
	sort.Strings(parts)
	return "[" + strings.Join(parts, " ") + "]"
}

// checkDotErrorGroups: in the picture of a failure, a value-group node may only
// be linked to results that are still drawn (members of constructors that did
// not fail are pruned together with their constructors), and when the failing
// constructor is a member of a group the failed Invoke asked for directly, the
// group's node is linked to that member.
func (c *Checked) checkDotErrorGroups(i int, op Op, g *DotGraph, byCat map[int]*dotCl, accepted func(cat int) *MCtor) {
	s := c.lastInv[op.ErrFrom-1]
	if s == nil || s.hasDecs || op.ErrFrom-1 != i-1 || c.H.Ops[op.ErrFrom-1].Kind != OpInvoke || !s.canVis {
		return
	}
	inCluster := map[string]int{} // node id -> catalogue function of its cluster
	memberID := map[int]map[Key]string{}
	for cat, x := range byCat {
		n := accepted(cat)
		for _, nd := range x.nodes {
			inCluster[nd.ID] = cat
		}
		if n == nil {
			continue
		}
		var keys []Key
		for _, r := range n.LR {
			keys = append(keys, r.Keys...)
		}
		if len(keys) != len(x.nodes) {
			continue
		}
		memberID[n.Fn] = map[Key]string{}
		rn := resultNodes(x.nodes, keys)
		for j, k := range keys {
			if k.IsGroup() {
				memberID[n.Fn][k] = rn[j].ID
			}
		}
	}
	diamondEdges := map[string][]string{}
	for _, n := range g.Nodes {
		if n.Cluster < 0 && n.Attrs["shape"] == "diamond" {
			diamondEdges[n.ID] = nil
		}
	}
	for _, e := range g.Edges {
		if _, ok := diamondEdges[e.From]; ok {
			diamondEdges[e.From] = append(diamondEdges[e.From], e.To)
			if _, drawn := inCluster[e.To]; !drawn {
				c.viol(i, "dot-error-group-dangling", fmt.Sprintf("group node %q is linked to %q, which is not a result of any constructor still drawn", e.From, e.To), "C19")
			}
		}
	}
	c.checkDotErrorEdges(i, g, byCat, accepted, inCluster)
	if s.firstFail < 0 {
		return
	}
	fc := c.M.ByFn[s.firstFail]
	if fc == nil {
		return
	}
	if len(s.lp) != 1 {
		// with other parameters the failure may have been reached through one
		// of them, in which case the group itself is not part of the failure
		return
	}
	for _, p := range s.lp {
		if !p.Key.IsGroup() || p.Soft {
			continue
		}
		id, ok := memberID[fc.Fn][p.Key]
		if !ok {
			continue
		}
		c.probe("dot_error_group_member")
		linked := false
		for _, tos := range diamondEdges {
			for _, to := range tos {
				if to == id {
					linked = true
				}
			}
		}
		if !linked {
			c.viol(i, "dot-error-group-member", fmt.Sprintf("f%d failed while the Invoke collected %s, of which it is a member; no group node is linked to that member", fc.Fn, p.Key), "C19")
		}
	}
}

// resultNodes assigns the result nodes of a cluster to the declared result keys
// (one node per key, in the order of keys). Nodes are recognised by what their
// label says -- the type, and the name or group if any -- so that the order of
// statements inside the cluster does not matter; if the labels cannot be read
// that way (another spelling of labels), the i-th node is taken for the i-th key.
func resultNodes(nodes []DotNode, keys []Key) []DotNode {
	if len(nodes) != len(keys) {
		return nil
	}
	type lab struct{ typ, detail string }
	labs := make([]lab, len(nodes))
	readable := true
	for i, n := range nodes {
		l := n.Attrs["label"]
		if !strings.HasPrefix(l, "<") || !strings.HasSuffix(l, ">") {
			readable = false
			break
		}
		l = l[1 : len(l)-1]
		typ, detail := l, ""
		if j := strings.Index(l, "<BR"); j >= 0 {
			typ, detail = l[:j], stripTags(l[j:])
		}
		labs[i] = lab{html.UnescapeString(typ), strings.TrimSpace(html.UnescapeString(detail))}
	}
	out := make([]DotNode, len(keys))
	if readable {
		used := make([]bool, len(nodes))
		ok := true
		for ki, k := range keys {
			want := k.Name
			if k.IsGroup() {
				want = k.Group
			}
			found := -1
			for ni := range nodes {
				if used[ni] || labs[ni].typ != TypeName(k.T) {
					continue
				}
				if (want == "" && labs[ni].detail == "") || (want != "" && strings.HasSuffix(labs[ni].detail, want) && strings.Contains(strings.ToLower(labs[ni].detail), map[bool]string{true: "group", false: "name"}[k.IsGroup()])) {
					found = ni
					break
				}
			}
			if found < 0 {
				ok = false
				break
			}
			used[found] = true
			out[ki] = nodes[found]
		}
		if ok {
			return out
		}
	}
	copy(out, nodes)
	return out
}

func stripTags(s string) string {
	var b strings.Builder
	depth := 0
	for _, r := range s {
		switch {
		case r == '<':
			depth++
		case r == '>':
			if depth > 0 {
				depth--
			}
		case depth == 0:
			b.WriteRune(r)
		}
	}
	return b.String()
}

func diamondsOf(g *DotGraph) map[string]DotNode {
	out := map[string]DotNode{}
	for _, n := range g.Nodes {
		if n.Cluster < 0 && n.Attrs["shape"] == "diamond" {
			out[n.ID] = n
		}
	}
	return out
}

func inAnyCluster(g *DotGraph) map[string]bool {
	out := map[string]bool{}
	for _, n := range g.Nodes {
		if n.Cluster >= 0 {
			out[n.ID] = true
		}
	}
	return out
}

// assignEdges finds an assignment of a constructor's edges to its declared
// dependencies (singles first, then groups, as the positional check expects)
// under the constraints the positional check enforces; nil if there is none.
// Among several compatible edges the one whose target id mentions the
// dependency's type and name is preferred, so that unprovided dependencies of
// different keys are not swapped.
func assignEdges(es []DotEdge, singles, groups []LeafParam, idsOfKey map[Key]map[string]bool, diamonds map[string]DotNode, clustered map[string]bool) []DotEdge {
	params := append(append([]LeafParam(nil), singles...), groups...)
	compat := func(p LeafParam, e DotEdge) int {
		_, isDiamond := diamonds[e.To]
		want := p.Key.Name
		if p.Key.IsGroup() {
			want = p.Key.Group
		}
		score := 1
		if strings.Contains(e.To, TypeName(p.Key.T)) {
			score += 2
		}
		if want != "" && strings.Contains(e.To, want) {
			score++
		}
		if p.Key.IsGroup() {
			if !isDiamond {
				return 0
			}
			return score
		}
		if isDiamond || strings.Contains(e.Attrs["style"], "dashed") != p.Opt {
			return 0
		}
		if ids := idsOfKey[p.Key]; len(ids) > 0 {
			if !ids[e.To] {
				return 0
			}
		} else if clustered[e.To] {
			return 0
		}
		return score
	}
	used := make([]bool, len(es))
	out := make([]DotEdge, len(params))
	var rec func(k int) bool
	rec = func(k int) bool {
		if k == len(params) {
			return true
		}
		// candidates by descending score
		type cand struct{ i, s int }
		var cs []cand
		for i, e := range es {
			if !used[i] {
				if s := compat(params[k], e); s > 0 {
					cs = append(cs, cand{i, s})
				}
			}
		}
		sort.SliceStable(cs, func(a, b int) bool { return cs[a].s > cs[b].s })
		for _, c := range cs {
			used[c.i] = true
			out[k] = es[c.i]
			if rec(k + 1) {
				return true
			}
			used[c.i] = false
		}
		return false
	}
	if len(es) != len(params) || !rec(0) {
		return nil
	}
	return out
}

// checkDotErrorEdges: the dependency edges of the constructors that are still
// drawn in the picture of a failure. (a) A dependency whose provider is still
// drawn (it failed too) keeps its edge: that edge is what explains the
// failure. (b) An edge may end outside every cluster only at a value-group
// node or at a key that no constructor provides at all: a leftover edge to the
// result of a pruned, healthy constructor would read as "nobody provides it".
func (c *Checked) checkDotErrorEdges(i int, g *DotGraph, byCat map[int]*dotCl, accepted func(cat int) *MCtor, inCluster map[string]int) {
	m := c.M
	diamonds := diamondsOf(g)
	// node ids of the results still drawn, by key
	drawn := map[Key]map[string]bool{}
	for cat, x := range byCat {
		n := accepted(cat)
		if n == nil {
			continue
		}
		var keys []Key
		for _, r := range n.LR {
			keys = append(keys, r.Keys...)
		}
		if len(keys) != len(x.nodes) {
			return // reported elsewhere; positions cannot be trusted
		}
		rn := resultNodes(x.nodes, keys)
		for j, k := range keys {
			if drawn[k] == nil {
				drawn[k] = map[string]bool{}
			}
			drawn[k][rn[j].ID] = true
		}
	}
	providers := func(k Key) int {
		n := 0
		for _, sc := range m.S {
			n += len(sc.Prov[k])
		}
		return n
	}
	providedAnywhere := func(k Key) bool { return providers(k) > 0 }
	edgesFrom := map[string][]DotEdge{}
	for _, e := range g.Edges {
		edgesFrom[e.From] = append(edgesFrom[e.From], e)
	}
	for cat, x := range byCat {
		n := accepted(cat)
		if n == nil {
			continue
		}
		outside, unprovided := 0, 0
		for _, e := range edgesFrom[x.label] {
			if _, in := inCluster[e.To]; in {
				continue
			}
			if _, d := diamonds[e.To]; d {
				continue
			}
			outside++
		}
		for _, p := range n.LP {
			if p.Key.IsGroup() {
				continue
			}
			if !providedAnywhere(p.Key) {
				unprovided++
				continue
			}
			// (the picture has one node per key whatever the scope: with the
			// key provided in several scopes, pruning a healthy provider also
			// removes the edges to its failed namesake; no claim then)
			if ids := drawn[p.Key]; len(ids) > 0 && providers(p.Key) == 1 {
				found := false
				for _, e := range edgesFrom[x.label] {
					if ids[e.To] {
						found = true
					}
				}
				if !found {
					c.viol(i, "dot-error-edge-missing", fmt.Sprintf("Cat%d depends on %s, whose constructor is still drawn (it failed), but there is no edge to it", cat, p.Key), "C19")
				}
			}
		}
		c.probe("dot_error_edges_checked")
		if outside > unprovided {
			c.viol(i, "dot-error-edge-dangling", fmt.Sprintf("Cat%d has %d edges that end outside every cluster and at no group node, but only %d of its dependencies are provided by no constructor at all", cat, outside, unprovided), "C19")
		}
	}
}
