package sim

import (
	"fmt"
	"reflect"

	"go.uber.org/dig"
)

// Compositional part of the malformed-input grammar (C14): whole function
// signatures are drawn from a grammar of Go types -- 0-3 parameters, 0-4
// results, each a plain type, a parameter / result object (dig.In / dig.Out
// embedded by value, by pointer, or as a named field; nested; with unexported
// fields) whose fields carry tags from the tag grammar, `error` in any
// position, an optional variadic -- and combined with a random subset of the
// options. Everything is a pure function of Mal.Arg (the seed of a local
// PRNG), so a replay file reproduces the value exactly. The values live in the
// M universe: whatever dig accepts here never touches a key the reference
// model tracks.

var m2T = reflect.TypeOf((*M2)(nil))

type sigGen struct {
	r       *Rng
	depth   int
	results bool // drawing result types (see plainType)
}

// The M universe must stay acyclic (a dependency cycle among these
// constructors would legitimately make later Provides / deferred Invokes of
// the tracked universe fail with a cycle error the reference model knows
// nothing about). Parameters are therefore drawn from one set of types and
// results from a disjoint one: constructors drawn here only consume M0-based
// types and only produce M1/M2-based ones, and nothing in the grammar turns
// an M1/M2-based value back into an M0-based one.
var (
	sigParamTypes = []reflect.Type{m0T, reflect.SliceOf(m0T), msT, miT,
		reflect.TypeOf((chan int)(nil)), reflect.TypeOf((func())(nil)), reflect.TypeOf([2]int{}), reflect.TypeOf(""),
		reflect.SliceOf(reflect.SliceOf(m0T))}
	sigResultTypes = []reflect.Type{m1T, m2T, reflect.SliceOf(m1T), reflect.SliceOf(reflect.SliceOf(m1T)),
		reflect.TypeOf((<-chan int)(nil)), reflect.TypeOf(map[string]int(nil)), reflect.TypeOf(0),
		reflect.TypeOf((*error)(nil)), reflect.TypeOf((*MJ)(nil)).Elem()}
)

func (g *sigGen) plainType() reflect.Type {
	set := sigParamTypes
	if g.results {
		set = sigResultTypes
	}
	if g.r.P(0.5) {
		return set[g.r.Intn(4)]
	}
	return set[g.r.Intn(len(set))]
}

// object builds a struct type embedding (or merely containing) embed.
func (g *sigGen) object(embed reflect.Type) (reflect.Type, bool) {
	g.depth++
	defer func() { g.depth-- }()
	e := embed
	anonymous := true
	switch g.r.Intn(12) {
	case 0:
		e = reflect.PtrTo(embed) // embedded by pointer
	case 1:
		anonymous = false // a named field of type dig.In / dig.Out
	}
	etag := ""
	if g.r.P(0.25) {
		etag = []string{`ignore-unexported:"true"`, `ignore-unexported:"false"`, `ignore-unexported:"perhaps"`, `ignore-unexported:""`, `name:"x"`}[g.r.Intn(5)]
	}
	var fields []reflect.StructField
	n := g.r.Range(0, 3)
	for i := 0; i < n; i++ {
		var ft reflect.Type
		switch {
		case g.depth < 3 && g.r.P(0.15):
			// nested object of the same or (misuse) of the other kind
			inner := embed
			if g.r.P(0.15) {
				if embed == inType {
					inner = outType
				} else {
					inner = inType
				}
			}
			t, ok := g.object(inner)
			if !ok {
				return nil, false
			}
			ft = t
			if g.r.P(0.1) {
				ft = reflect.PtrTo(t)
			}
		default:
			ft = g.plainType()
		}
		tag := ""
		if g.r.P(0.7) {
			tag = tagGrammar(g.r)
		}
		f := reflect.StructField{Name: fmt.Sprintf("F%d", i), Type: ft, Tag: reflect.StructTag(tag)}
		if g.r.P(0.08) {
			f.Name = fmt.Sprintf("hidden%d", i)
			f.PkgPath = "digsim"
		}
		fields = append(fields, f)
	}
	if g.r.P(0.05) {
		// both In and Out in one struct
		other := outType
		if embed == outType {
			other = inType
		}
		fields = append(fields, reflect.StructField{Name: other.Name(), Type: other, Anonymous: true})
	}
	t, err := structOf(e, anonymous, etag, fields...)
	if err != nil {
		return nil, false
	}
	return t, true
}

func (g *sigGen) paramType() (reflect.Type, bool) {
	switch x := g.r.Intn(20); {
	case x < 9:
		return g.plainType(), true
	case x < 17:
		return g.object(inType)
	case x == 17:
		t, ok := g.object(inType)
		if !ok {
			return nil, false
		}
		return reflect.PtrTo(t), true
	case x == 18:
		return g.object(outType)
	}
	return errType, true
}

func (g *sigGen) resultType() (reflect.Type, bool) {
	switch x := g.r.Intn(20); {
	case x < 8:
		return g.plainType(), true
	case x < 15:
		return g.object(outType)
	case x == 15:
		t, ok := g.object(outType)
		if !ok {
			return nil, false
		}
		return reflect.PtrTo(t), true
	case x == 16:
		return g.object(inType)
	}
	return errType, true
}

// randomSig draws a function value and options for api from seed.
func randomSig(api string, seed int) (call malCall, ok bool) {
	g := &sigGen{r: NewRng(mix64(int64(seed), 0x51677))}
	var in, out []reflect.Type
	np := g.r.Range(0, 3)
	for i := 0; i < np; i++ {
		t, ok := g.paramType()
		if !ok {
			return call, false
		}
		in = append(in, t)
	}
	variadic := g.r.P(0.12)
	if variadic {
		in = append(in, reflect.SliceOf(g.plainType()))
	}
	// decorators produce what they consume; constructors produce other types
	g.results = api != "decorate"
	nr := g.r.Range(0, 3)
	if api == "invoke" {
		nr = g.r.Intn(2)
	}
	for i := 0; i < nr; i++ {
		t, ok := g.resultType()
		if !ok {
			return call, false
		}
		out = append(out, t)
	}
	if g.r.P(0.5) {
		out = append(out, errType)
	}
	call.fn = zeroStub(reflect.FuncOf(in, out, variadic))
	switch api {
	case "provide":
		names := []string{"a", "", "a<b>", "b`q"}
		groups := []string{"mg", "mg,flatten", ",flatten", "mg,soft", "mg,bogus", ""}
		as := [][]interface{}{{new(MI)}, {new(MI), new(MJ)}, {nil}, {42}, {new(error)}, {new(interface{})}, {}}
		if g.r.P(0.25) {
			call.popts = append(call.popts, dig.Name(names[g.r.Intn(len(names))]))
		}
		if g.r.P(0.25) {
			call.popts = append(call.popts, dig.Group(groups[g.r.Intn(len(groups))]))
		}
		if g.r.P(0.2) {
			call.popts = append(call.popts, dig.As(as[g.r.Intn(len(as))]...))
		}
		if g.r.P(0.15) {
			call.popts = append(call.popts, dig.Export(true))
		}
		if g.r.P(0.15) {
			call.popts = append(call.popts, dig.FillProvideInfo(&dig.ProvideInfo{}))
		}
		if g.r.P(0.1) {
			call.popts = append(call.popts, dig.WithProviderCallback(func(dig.CallbackInfo) {}))
		}
		if g.r.P(0.05) {
			call.popts = append(call.popts, dig.LocationForPC(reflect.ValueOf(zeroStub).Pointer()))
		}
		// options in a random order
		p := g.r.Perm(len(call.popts))
		o := make([]dig.ProvideOption, len(p))
		for i, j := range p {
			o[i] = call.popts[j]
		}
		call.popts = o
	case "decorate":
		if g.r.P(0.15) {
			call.dopts = append(call.dopts, dig.FillDecorateInfo(&dig.DecorateInfo{}))
		}
		if g.r.P(0.1) {
			call.dopts = append(call.dopts, dig.WithDecoratorCallback(func(dig.CallbackInfo) {}))
		}
	case "invoke":
		if g.r.P(0.15) {
			call.iopts = append(call.iopts, dig.FillInvokeInfo(&dig.InvokeInfo{}))
		}
	}
	return call, true
}

func randomSigCase(api string) malCase {
	return malCase{api, "random-sig", func(m *Mal) malCall {
		c, ok := randomSig(api, m.Arg)
		if !ok {
			return malCall{fn: errMalUnbuildable}
		}
		return c
	}}
}

// sigString renders the Go type of a random-sig value (replay files, reports).
func sigString(m *Mal) (s string) {
	defer func() {
		if recover() != nil {
			s = "?"
		}
	}()
	c, ok := randomSig(m.API, m.Arg)
	if !ok {
		return "unbuildable"
	}
	return fmt.Sprintf("%T +%d options", c.fn, len(c.popts)+len(c.dopts)+len(c.iopts))
}
