package main

import (
	"fmt"
	"os"

	"digsim"
)

func main() {
	if len(os.Args) < 2 {
		fmt.Fprintln(os.Stderr, "usage: digsim run|worker|replay|selftest|try ...")
		os.Exit(2)
	}
	os.Exit(sim.Main(os.Args[1], os.Args[2:]))
}
