// mutgen enumerates and applies mechanical (operator-level) changes to the
// source of go.uber.org/dig. It is the second, unbiased source of seeded
// changes for the sensitivity record (DESIGN.md §13.5): every change that still
// compiles and passes dig's own test suite is run against all twenty checks.
//
//	mutgen -src <dir> -list                 one line per mutation site: id file:line kind text
//	mutgen -src <dir> -apply <id> -dst <dir2>   writes the changed file into dir2 (same relative path)
//
// Only the standard library is used; the enumeration order is the order of
// go/ast.Inspect over the files in lexical order, so ids are stable for one
// source tree.
package main

import (
	"bytes"
	"flag"
	"fmt"
	"go/ast"
	"go/format"
	"go/importer"
	"go/parser"
	"go/token"
	"go/types"
	"os"
	"path/filepath"
	"sort"
	"strings"
)

var files = []string{
	"callback.go", "constructor.go", "container.go", "cycle_error.go", "decorate.go",
	"error.go", "graph.go", "group.go", "inout.go", "invoke.go", "param.go", "provide.go",
	"result.go", "scope.go", "visualize.go",
	"internal/dot/graph.go", "internal/graph/graph.go", "internal/digreflect/func.go",
	"internal/digclock/clock.go",
}

type site struct {
	file string
	line int
	kind string
	text string
	// apply performs the change on the parsed file
	apply func()
}

var binSwap = map[token.Token]token.Token{
	token.EQL: token.NEQ, token.NEQ: token.EQL,
	token.LSS: token.LEQ, token.LEQ: token.LSS,
	token.GTR: token.GEQ, token.GEQ: token.GTR,
	token.LAND: token.LOR, token.LOR: token.LAND,
	token.ADD: token.SUB, token.SUB: token.ADD,
}

func exprStr(fset *token.FileSet, n ast.Node) string {
	var b bytes.Buffer
	format.Node(&b, fset, n)
	s := strings.Join(strings.Fields(b.String()), " ")
	if len(s) > 90 {
		s = s[:90] + "..."
	}
	return s
}

func collect(fset *token.FileSet, rel string, f *ast.File) []site {
	var out []site
	add := func(n ast.Node, kind, text string, apply func()) {
		out = append(out, site{rel, fset.Position(n.Pos()).Line, kind, text, apply})
	}
	// statement lists: deletion of single statements
	stmtList := func(list *[]ast.Stmt) {
		for i := range *list {
			i := i
			st := (*list)[i]
			del := func() { (*list)[i] = &ast.EmptyStmt{Semicolon: st.Pos(), Implicit: false} }
			switch s := st.(type) {
			case *ast.ExprStmt:
				if call, ok := s.X.(*ast.CallExpr); ok {
					if id, ok := call.Fun.(*ast.Ident); ok && id.Name == "panic" {
						continue
					}
				}
				add(st, "del-call", exprStr(fset, st), del)
			case *ast.AssignStmt:
				if s.Tok == token.DEFINE {
					continue // deleting a definition rarely compiles
				}
				add(st, "del-assign", exprStr(fset, st), del)
			case *ast.IncDecStmt:
				add(st, "del-incdec", exprStr(fset, st), del)
			case *ast.DeferStmt:
				add(st, "del-defer", exprStr(fset, st), del)
			case *ast.BranchStmt:
				if s.Tok == token.CONTINUE || s.Tok == token.BREAK {
					add(st, "del-branch", exprStr(fset, st), del)
				}
			case *ast.ReturnStmt:
				if len(s.Results) == 0 {
					add(st, "del-return", "return", del)
				}
			case *ast.IfStmt:
				if s.Else == nil && s.Init == nil {
					// drop the whole guarded block
					add(st, "del-if", "if "+exprStr(fset, s.Cond)+" {...}", del)
				}
			}
		}
	}
	ast.Inspect(f, func(n ast.Node) bool {
		switch x := n.(type) {
		case *ast.BlockStmt:
			stmtList(&x.List)
		case *ast.CaseClause:
			stmtList(&x.Body)
		case *ast.IfStmt:
			c := x.Cond
			add(x, "neg-if", "if "+exprStr(fset, c), func() {
				x.Cond = &ast.UnaryExpr{Op: token.NOT, X: &ast.ParenExpr{X: c}}
			})
			if x.Else != nil {
				add(x, "if-true", "if "+exprStr(fset, c)+" -> true", func() { x.Cond = ast.NewIdent("true") })
				add(x, "if-false", "if "+exprStr(fset, c)+" -> false", func() { x.Cond = ast.NewIdent("false") })
			}
		case *ast.ForStmt:
			if x.Cond != nil {
				if b, ok := x.Cond.(*ast.BinaryExpr); ok {
					if sw, ok := binSwap[b.Op]; ok {
						op := b.Op
						add(x, "for-cond", "for "+exprStr(fset, b)+" : "+op.String()+" -> "+sw.String(), func() { b.Op = sw })
					}
				}
			}
		case *ast.BinaryExpr:
			if sw, ok := binSwap[x.Op]; ok {
				op := x.Op
				// string concatenation: + -> - does not compile; harmless
				add(x, "binop", exprStr(fset, x)+" : "+op.String()+" -> "+sw.String(), func() { x.Op = sw })
			}
			if x.Op == token.LAND || x.Op == token.LOR {
				l, r := x.X, x.Y
				add(x, "drop-left", exprStr(fset, x)+" -> right operand only", func() { *x = ast.BinaryExpr{X: r, Op: token.LAND, Y: ast.NewIdent("true")} })
				add(x, "drop-right", exprStr(fset, x)+" -> left operand only", func() { *x = ast.BinaryExpr{X: l, Op: token.LAND, Y: ast.NewIdent("true")} })
			}
		case *ast.UnaryExpr:
			if x.Op == token.NOT {
				inner := x.X
				add(x, "drop-not", exprStr(fset, x)+" -> without !", func() { x.X = &ast.UnaryExpr{Op: token.NOT, X: &ast.ParenExpr{X: inner}} })
			}
		case *ast.Ident:
			if x.Name == "true" || x.Name == "false" {
				old := x.Name
				nw := "true"
				if old == "true" {
					nw = "false"
				}
				add(x, "bool", old+" -> "+nw, func() { x.Name = nw })
			}
		case *ast.BasicLit:
			if x.Kind == token.INT && (x.Value == "0" || x.Value == "1") {
				old := x.Value
				nw := "1"
				if old == "1" {
					nw = "0"
				}
				add(x, "int", old+" -> "+nw, func() { x.Value = nw })
			}
		case *ast.ReturnStmt:
			// return <err-ish ident> -> return nil for the last result when it is an identifier named err
			if k := len(x.Results); k > 0 {
				if id, ok := x.Results[k-1].(*ast.Ident); ok && id.Name == "err" {
					add(x, "ret-nil", exprStr(fset, x)+" : err -> nil", func() { x.Results[k-1] = ast.NewIdent("nil") })
				}
			}
		case *ast.RangeStmt:
			// skip the first element / stop after the first
			body := x.Body
			add(x, "range-break", "for range "+exprStr(fset, x.X)+" : break after first iteration", func() {
				body.List = append(body.List, &ast.BranchStmt{Tok: token.BREAK})
			})
		}
		return true
	})
	return out
}

func load(src string) (*token.FileSet, map[string]*ast.File, []site) {
	fset := token.NewFileSet()
	parsed := map[string]*ast.File{}
	var all []site
	fs := append([]string(nil), files...)
	sort.Strings(fs)
	for _, rel := range fs {
		f, err := parser.ParseFile(fset, filepath.Join(src, rel), nil, parser.ParseComments)
		if err != nil {
			fmt.Fprintln(os.Stderr, "mutgen:", err)
			os.Exit(2)
		}
		parsed[rel] = f
		all = append(all, collect(fset, rel, f)...)
	}
	return fset, parsed, all
}

// ---- type-aware operators (-typed): wrong variable, wrong field, swapped arguments

type modImporter struct {
	fset *token.FileSet
	src  string
	std  types.Importer
	done map[string]*types.Package
}

func (m *modImporter) Import(path string) (*types.Package, error) {
	const mod = "go.uber.org/dig"
	if !strings.HasPrefix(path, mod+"/") {
		return m.std.Import(path)
	}
	if p, ok := m.done[path]; ok {
		return p, nil
	}
	dir := filepath.Join(m.src, strings.TrimPrefix(path, mod+"/"))
	fs, _, err := parseDir(m.fset, dir)
	if err != nil {
		return nil, err
	}
	conf := types.Config{Importer: m}
	p, err := conf.Check(path, m.fset, fs, nil)
	if err != nil {
		return nil, err
	}
	m.done[path] = p
	return p, nil
}

// parseDir parses the non-test files of dir that are built without tags.
func parseDir(fset *token.FileSet, dir string) ([]*ast.File, []string, error) {
	ents, err := os.ReadDir(dir)
	if err != nil {
		return nil, nil, err
	}
	var fs []*ast.File
	var names []string
	for _, e := range ents {
		n := e.Name()
		if e.IsDir() || !strings.HasSuffix(n, ".go") || strings.HasSuffix(n, "_test.go") {
			continue
		}
		b, err := os.ReadFile(filepath.Join(dir, n))
		if err != nil {
			return nil, nil, err
		}
		if bytes.Contains(b, []byte("//go:build verif")) {
			continue
		}
		f, err := parser.ParseFile(fset, filepath.Join(dir, n), b, parser.ParseComments)
		if err != nil {
			return nil, nil, err
		}
		fs = append(fs, f)
		names = append(names, n)
	}
	return fs, names, nil
}

func loadTyped(src string) (*token.FileSet, map[string]*ast.File, []site) {
	fset := token.NewFileSet()
	imp := &modImporter{fset: fset, src: src, std: importer.ForCompiler(fset, "source", nil), done: map[string]*types.Package{}}
	var all []site
	parsed := map[string]*ast.File{}
	for _, dir := range []string{"", "internal/dot", "internal/graph"} {
		fs, names, err := parseDir(fset, filepath.Join(src, dir))
		if err != nil {
			fmt.Fprintln(os.Stderr, "mutgen:", err)
			os.Exit(2)
		}
		info := &types.Info{Uses: map[*ast.Ident]types.Object{}, Defs: map[*ast.Ident]types.Object{}, Types: map[ast.Expr]types.TypeAndValue{}, Selections: map[*ast.SelectorExpr]*types.Selection{}}
		path := "go.uber.org/dig"
		if dir != "" {
			path += "/" + dir
		}
		conf := types.Config{Importer: imp}
		pkg, err := conf.Check(path, fset, fs, info)
		if err != nil {
			fmt.Fprintln(os.Stderr, "mutgen: type check:", err)
			os.Exit(2)
		}
		for i, f := range fs {
			rel := filepath.Join(dir, names[i])
			if names[i] == "doc.go" || names[i] == "version.go" {
				continue
			}
			parsed[rel] = f
			all = append(all, collectTyped(fset, rel, f, pkg, info)...)
		}
	}
	return fset, parsed, all
}

func collectTyped(fset *token.FileSet, rel string, f *ast.File, pkg *types.Package, info *types.Info) []site {
	var out []site
	add := func(n ast.Node, kind, text string, apply func()) {
		out = append(out, site{rel, fset.Position(n.Pos()).Line, kind, text, apply})
	}
	// identifiers that are the Sel of a selector or a struct-literal key are not variables uses
	skip := map[*ast.Ident]bool{}
	ast.Inspect(f, func(n ast.Node) bool {
		switch x := n.(type) {
		case *ast.SelectorExpr:
			skip[x.Sel] = true
		case *ast.KeyValueExpr:
			if id, ok := x.Key.(*ast.Ident); ok {
				skip[id] = true
			}
		}
		return true
	})
	ast.Inspect(f, func(n ast.Node) bool {
		switch x := n.(type) {
		case *ast.Ident:
			if skip[x] || x.Name == "_" {
				return true
			}
			obj, ok := info.Uses[x].(*types.Var)
			if !ok || obj.IsField() || obj.Pkg() != pkg || obj.Parent() == pkg.Scope() {
				return true
			}
			inner := pkg.Scope().Innermost(x.Pos())
			seen := map[string]bool{x.Name: true}
			var names []string
			for s := inner; s != nil && s != pkg.Scope() && s != types.Universe; s = s.Parent() {
				for _, name := range s.Names() {
					if seen[name] || name == "_" {
						continue
					}
					seen[name] = true
					o, ok := s.Lookup(name).(*types.Var)
					if !ok || o.Pos() >= x.Pos() || !types.Identical(o.Type(), obj.Type()) {
						continue
					}
					if _, found := inner.LookupParent(name, x.Pos()); found != o {
						continue
					}
					names = append(names, name)
				}
			}
			sort.Strings(names)
			old := x.Name
			for _, name := range names {
				name := name
				add(x, "swap-var", old+" -> "+name, func() { x.Name = name })
			}
		case *ast.SelectorExpr:
			sel := info.Selections[x]
			if sel == nil || sel.Kind() != types.FieldVal {
				return true
			}
			fld, ok := sel.Obj().(*types.Var)
			if !ok || fld.Pkg() != pkg {
				return true
			}
			recv := sel.Recv()
			if p, ok := recv.Underlying().(*types.Pointer); ok {
				recv = p.Elem()
			}
			st, ok := recv.Underlying().(*types.Struct)
			if !ok || len(sel.Index()) != 1 {
				return true
			}
			old := x.Sel.Name
			for i := 0; i < st.NumFields(); i++ {
				g := st.Field(i)
				if g.Name() == old || g.Name() == "_" || !types.Identical(g.Type(), fld.Type()) {
					continue
				}
				name := g.Name()
				add(x, "swap-field", exprStr(fset, x)+" -> ."+name, func() { x.Sel.Name = name })
			}
		case *ast.CallExpr:
			if se, ok := x.Fun.(*ast.SelectorExpr); ok {
				if id, ok := se.X.(*ast.Ident); ok && id.Name == "fmt" {
					return true // message texts only
				}
			}
			for i := 0; i+1 < len(x.Args); i++ {
				a, b := x.Args[i], x.Args[i+1]
				ta, tb := info.TypeOf(a), info.TypeOf(b)
				if ta == nil || tb == nil || !types.Identical(ta, tb) || exprStr(fset, a) == exprStr(fset, b) {
					continue
				}
				if x.Ellipsis.IsValid() && i+1 == len(x.Args)-1 {
					continue
				}
				i := i
				add(x, "swap-args", exprStr(fset, x)+" : arguments "+fmt.Sprint(i)+" and "+fmt.Sprint(i+1), func() { x.Args[i], x.Args[i+1] = x.Args[i+1], x.Args[i] })
			}
		}
		return true
	})
	return out
}

func main() {
	typed := flag.Bool("typed", false, "the type-aware operators (wrong variable, wrong field, swapped arguments) instead of the syntactic ones")
	src := flag.String("src", "/repo", "")
	list := flag.Bool("list", false, "")
	apply := flag.Int("apply", -1, "")
	dst := flag.String("dst", "", "")
	flag.Parse()
	var (
		fset   *token.FileSet
		parsed map[string]*ast.File
		all    []site
	)
	if *typed {
		fset, parsed, all = loadTyped(*src)
	} else {
		fset, parsed, all = load(*src)
	}
	if *list {
		for i, s := range all {
			fmt.Printf("%d\t%s:%d\t%s\t%s\n", i, s.file, s.line, s.kind, s.text)
		}
		return
	}
	if *apply < 0 || *apply >= len(all) || *dst == "" {
		fmt.Fprintln(os.Stderr, "usage: mutgen -src dir (-list | -apply id -dst dir)")
		os.Exit(2)
	}
	s := all[*apply]
	s.apply()
	var b bytes.Buffer
	if err := format.Node(&b, fset, parsed[s.file]); err != nil {
		fmt.Fprintln(os.Stderr, "mutgen:", err)
		os.Exit(2)
	}
	out := filepath.Join(*dst, s.file)
	if err := os.WriteFile(out, b.Bytes(), 0o644); err != nil {
		fmt.Fprintln(os.Stderr, "mutgen:", err)
		os.Exit(2)
	}
	fmt.Printf("%d\t%s:%d\t%s\t%s\n", *apply, s.file, s.line, s.kind, s.text)
}
