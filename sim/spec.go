package sim

import (
	"fmt"
	"strings"
)

// Type indices: 0..NumK-1 are the payload pointer types *K<i>; TIface+j is
// interface I<j>.
const TIface = 100

// TSlice+i is the slice type []*K<i> used as the *element* type of a value
// group (members that are themselves slices, possibly empty or nil). Only
// templates produce it, and only in group keys.
const TSlice = 200

// SepSerial separates the members of such a group in serial lists: each
// member is SepSerial followed by the serials of its elements.
const SepSerial = -2

func IsIface(t int) bool { return t >= TIface && t < TSlice }

func IsSliceT(t int) bool { return t >= TSlice && t < TPlain }

// TPlain+i is the plain struct type V<i> under its own key, whatever
// Config.ValMask says. Nothing ever provides it: it only occurs as an optional
// parameter, namely as the anonymous (embedded) struct field that a declared
// parameter object may carry in front of its dig.In embed (Param.AnonVal).
const TPlain = 400

func IsPlainT(t int) bool { return t >= TPlain }

// curValMask: bit i set = universe position i is realised as the struct value
// type V<i> instead of the pointer type *K<i> in the world that is currently
// executing (Config.ValMask; set by NewWorld).
var curValMask uint32

func isVal(t int) bool { return t >= 0 && t < NumK && curValMask&(1<<uint(t)) != 0 }

// curAltMask: bit p set = universe position p is realised as the type
// K<(p+1) mod 16> of package digsim/altsim, whose String() equals that of this
// package's type at the next position (Config.AltMask; set by NewWorld).
var curAltMask uint32

func isAlt(t int) bool {
	return t >= 0 && t < NumK && curAltMask&(1<<uint(t)) != 0 && !isVal(t)
}

func altIndex(t int) int { return (t + 1) % NumK }

func TypeName(t int) string {
	if IsPlainT(t) {
		return fmt.Sprintf("sim.V%d", t-TPlain)
	}
	if IsSliceT(t) {
		return "[]" + TypeName(t-TSlice)
	}
	if isVal(t) {
		return fmt.Sprintf("sim.V%d", t)
	}
	if isAlt(t) {
		return fmt.Sprintf("*sim.K%d", altIndex(t)) // prints like the main package's next type
	}
	if IsIface(t) {
		return fmt.Sprintf("sim.I%d", t-TIface)
	}
	return fmt.Sprintf("*sim.K%d", t)
}

// Key identifies a value in the container: type + name, or type + group.
type Key struct {
	T     int    `json:"t"`
	Name  string `json:"name,omitempty"`
	Group string `json:"group,omitempty"`
}

func (k Key) String() string {
	switch {
	case k.Group != "":
		return fmt.Sprintf("%s[group=%s]", TypeName(k.T), k.Group)
	case k.Name != "":
		return fmt.Sprintf("%s[name=%s]", TypeName(k.T), k.Name)
	}
	return TypeName(k.T)
}

func (k Key) IsGroup() bool { return k.Group != "" }

type PKind int

const (
	PSingle PKind = iota
	PGroup
	PObj
)

// Param is one declared parameter (tree: objects nest).
type Param struct {
	Kind       PKind   `json:"kind"`
	T          int     `json:"t,omitempty"`
	Name       string  `json:"name,omitempty"`
	Opt        bool    `json:"opt,omitempty"`
	Group      string  `json:"group,omitempty"`
	Soft       bool    `json:"soft,omitempty"`
	NamedSlice bool    `json:"named_slice,omitempty"` // group consumer declared as KS<i>
	NamedAlt   bool    `json:"named_alt,omitempty"`   // with NamedSlice: declared as KT<i> instead of KS<i>
	Fields     []Param `json:"fields,omitempty"`
	// Hidden > 0 (declared catalogue functions only; reflect cannot build such
	// a type): the object has an unexported field before field Hidden-1 and its
	// dig.In carries ignore-unexported:"true". A legal encoding of the same
	// parameters.
	Hidden int `json:"hidden,omitempty"`
	// AnonVal > 0 (declared catalogue functions only): the object starts with
	// an anonymous optional field of the plain struct type V<AnonVal-1>,
	// declared before the dig.In embed; it is a leaf parameter (key TPlain+i)
	// that comes first in the object.
	AnonVal int `json:"anon_val,omitempty"`
	// Embed: this object is an anonymous (embedded) field of the enclosing
	// parameter object instead of a named one.
	Embed bool `json:"embed,omitempty"`
}

type RKind int

const (
	RSingle RKind = iota
	RGroup
	RObj
)

// Result is one declared result (tree: objects nest).
type Result struct {
	Kind     RKind    `json:"kind"`
	T        int      `json:"t,omitempty"`
	Name     string   `json:"name,omitempty"`
	Group    string   `json:"group,omitempty"`
	Flatten  bool     `json:"flatten,omitempty"`
	NamedRes int      `json:"named_res,omitempty"` // decorator group result declared as a named slice type: 1 KS<i>, 2 KT<i>
	Fields   []Result `json:"fields,omitempty"`
}

type Role int

const (
	RoleCtor Role = iota
	RoleDec
	RoleInv
)

func (r Role) String() string { return [...]string{"ctor", "dec", "inv"}[r] }

// Func is the specification of one user function handed to dig. The stub
// that implements it is built from this spec only.
type Func struct {
	ID       int      `json:"id"`
	Role     Role     `json:"role"`
	Params   []Param  `json:"params,omitempty"`
	Results  []Result `json:"results,omitempty"`
	HasErr   bool     `json:"has_err,omitempty"`
	ErrFirst bool     `json:"err_first,omitempty"` // the error result is declared first instead of last (constructors / decorators)
	ErrAt    int      `json:"err_at,omitempty"`    // >0: the error result is declared before top-level result ErrAt (in the middle)
	ErrExtra int      `json:"err_extra,omitempty"` // a second error result that is always nil: 1 declared last, 2 declared first
	ErrLike  bool     `json:"err_like,omitempty"`  // the error result is declared as an interface type that embeds error, not as error itself
	Reenter  bool     `json:"reenter,omitempty"`   // constructor / decorator body calls Invoke for its own first result (re-entrant user code)
	ReKey    *Key     `json:"re_key,omitempty"`    // with Reenter: the nested request is for this key instead ...
	ReScope  int      `json:"re_scope,omitempty"`  // ... issued on this scope
	ReCB     bool     `json:"re_cb,omitempty"`     // with Reenter and Callback: the nested request is issued from the callback, not from the body
	// ThenProvide > 0 (invoked functions): the body registers constructor
	// Funcs[ThenProvide-1] on scope ThenScope before it returns (lazy
	// registration from inside an Invoke). Equivalent to a Provide issued right
	// after the Invoke, and checked as such.
	ThenProvide int  `json:"then_provide,omitempty"`
	ThenScope   int  `json:"then_scope,omitempty"`
	Variadic    bool `json:"variadic,omitempty"`

	// Provide options.
	OptName    string `json:"opt_name,omitempty"`
	OptGroup   string `json:"opt_group,omitempty"`
	OptFlatten bool   `json:"opt_flatten,omitempty"` // Group("g,flatten")
	OptAs      []int  `json:"opt_as,omitempty"`      // interface numbers
	Export     bool   `json:"export,omitempty"`
	OptNoise   bool   `json:"opt_noise,omitempty"` // every Provide option is preceded by the same option with another value (the last one wins)
	Callback   bool   `json:"callback,omitempty"`
	Info       bool   `json:"info,omitempty"`
	LocPC      bool   `json:"loc_pc,omitempty"`     // Provide with LocationForPC(<another declared function>): the ID must still be this function's
	ReuseInfo  bool   `json:"reuse_info,omitempty"` // Provide fills the Info struct the previous accepted Provide filled

	Salt  int64 `json:"salt,omitempty"`   // decides data-dependent stub behaviour (e.g. flatten lengths); survives renumbering
	Cat   int   `json:"cat"`              // catalogue index, -1 for a dynamic stub
	DurNs int64 `json:"dur_ns,omitempty"` // simulated time spent inside the body
}

// LeafParam is a flattened parameter in declaration order.
type LeafParam struct {
	Key        Key
	Opt        bool
	Soft       bool
	NamedSlice bool
	NamedAlt   bool
	Obj        int   // index of the innermost enclosing parameter object (-1 positional)
	ObjPath    []int // indices of all enclosing parameter objects, outermost first
}

// LeafResult is a flattened result in declaration order. Keys lists every
// key the value is stored under (As expands to several).
type LeafResult struct {
	Keys     []Key
	Flatten  bool
	NamedRes int // decorator group result declared as a named slice type
}

// ErrIndex is the position of the error among the function's Go results
// (-1: none): first, in the middle, or (the usual form) last.
func (f *Func) ErrIndex() int {
	switch {
	case !f.HasErr:
		return -1
	case f.ErrFirst:
		return 0
	case f.ErrAt > 0 && f.ErrAt < len(f.Results):
		return f.ErrAt
	}
	return len(f.Results)
}

// Layout lists the function's Go results in declaration order: i >= 0 is
// top-level result i, -1 the error result that carries injected errors, -2 a
// second error result that is always nil (dig accepts any number of them).
func (f *Func) Layout() []int {
	var out []int
	ei := f.ErrIndex()
	if f.HasErr && f.ErrExtra == 2 {
		out = append(out, -2)
	}
	for i := range f.Results {
		if i == ei {
			out = append(out, -1)
		}
		out = append(out, i)
	}
	if ei >= 0 && ei == len(f.Results) {
		out = append(out, -1)
	}
	if f.HasErr && f.ErrExtra == 1 {
		out = append(out, -2)
	}
	return out
}

func (f *Func) LeafParams() []LeafParam {
	var out []LeafParam
	nobj := 0
	var walk func(ps []Param, obj int, path []int)
	walk = func(ps []Param, obj int, path []int) {
		for _, p := range ps {
			switch p.Kind {
			case PSingle:
				out = append(out, LeafParam{Key: Key{T: p.T, Name: p.Name}, Opt: p.Opt, Obj: obj, ObjPath: path})
			case PGroup:
				out = append(out, LeafParam{Key: Key{T: p.T, Group: p.Group}, Soft: p.Soft, NamedSlice: p.NamedSlice, NamedAlt: p.NamedAlt, Obj: obj, ObjPath: path})
			case PObj:
				id := nobj
				nobj++
				np := append(append([]int(nil), path...), id)
				if p.AnonVal > 0 {
					out = append(out, LeafParam{Key: Key{T: TPlain + p.AnonVal - 1}, Opt: true, Obj: id, ObjPath: np})
				}
				walk(p.Fields, id, np)
			}
		}
	}
	walk(f.Params, -1, nil)
	return out
}

func (f *Func) LeafResults() []LeafResult {
	var out []LeafResult
	var walk func(rs []Result, top bool)
	walk = func(rs []Result, top bool) {
		for _, r := range rs {
			switch r.Kind {
			case RSingle:
				// Provide options apply to positional results only; dig rejects
				// Name/Group options on result objects.
				name := r.Name
				if top && f.Role == RoleCtor {
					name = f.OptName
					if f.OptGroup != "" {
						out = append(out, LeafResult{Keys: asKeys(r.T, "", f.OptGroup, f.OptAs), Flatten: f.OptFlatten})
						continue
					}
				}
				out = append(out, LeafResult{Keys: asKeys(r.T, name, "", f.OptAs)})
			case RGroup:
				out = append(out, LeafResult{Keys: []Key{{T: r.T, Group: r.Group}}, Flatten: r.Flatten, NamedRes: r.NamedRes})
			case RObj:
				walk(r.Fields, false)
			}
		}
	}
	walk(f.Results, true)
	return out
}

func asKeys(t int, name, group string, as []int) []Key {
	if len(as) == 0 {
		return []Key{{T: t, Name: name, Group: group}}
	}
	var ks []Key
	for _, j := range as {
		ks = append(ks, Key{T: TIface + j, Name: name, Group: group})
	}
	return ks
}

// AllKeys lists every key this function produces.
func (f *Func) AllKeys() []Key {
	var ks []Key
	for _, r := range f.LeafResults() {
		ks = append(ks, r.Keys...)
	}
	return ks
}

func (f *Func) String() string {
	var b strings.Builder
	fmt.Fprintf(&b, "f%d:%s(", f.ID, f.Role)
	for i, p := range f.Params {
		if i > 0 {
			b.WriteString(", ")
		}
		b.WriteString(p.String())
	}
	if f.Variadic {
		b.WriteString(", ...")
	}
	b.WriteString(") -> (")
	for k, x := range f.Layout() {
		if k > 0 {
			b.WriteString(", ")
		}
		switch x {
		case -1:
			b.WriteString("error")
			if f.ErrLike {
				b.WriteString("(declared as an interface embedding error)")
			}
		case -2:
			b.WriteString("error(always nil)")
		default:
			b.WriteString(f.Results[x].String())
		}
	}
	b.WriteString(")")
	if f.Reenter {
		b.WriteString(" Reenter")
		if f.ReKey != nil {
			fmt.Fprintf(&b, "(%s from s%d)", *f.ReKey, f.ReScope)
		}
		if f.ReCB {
			b.WriteString("(in callback)")
		}
	}
	if f.ThenProvide > 0 {
		fmt.Fprintf(&b, " then-Provide(f%d to s%d)", f.ThenProvide-1, f.ThenScope)
	}
	if f.OptName != "" {
		fmt.Fprintf(&b, " Name(%s)", f.OptName)
	}
	if f.OptGroup != "" {
		fmt.Fprintf(&b, " Group(%s", f.OptGroup)
		if f.OptFlatten {
			b.WriteString(",flatten")
		}
		b.WriteString(")")
	}
	if len(f.OptAs) > 0 {
		fmt.Fprintf(&b, " As(%v)", f.OptAs)
	}
	if f.Export {
		b.WriteString(" Export")
	}
	if f.Callback {
		b.WriteString(" Callback")
	}
	if f.Cat >= 0 {
		fmt.Fprintf(&b, " cat#%d", f.Cat)
	}
	return b.String()
}

func (p Param) String() string {
	switch p.Kind {
	case PSingle:
		s := TypeName(p.T)
		if p.Name != "" {
			s += "[name=" + p.Name + "]"
		}
		if p.Opt {
			s += "?"
		}
		return s
	case PGroup:
		s := "[]" + TypeName(p.T) + "[group=" + p.Group
		if p.Soft {
			s += ",soft"
		}
		s += "]"
		if p.NamedSlice {
			s += "(named)"
		}
		return s
	}
	var parts []string
	if p.AnonVal > 0 {
		parts = append(parts, fmt.Sprintf("(anonymous, before dig.In) sim.V%d?", p.AnonVal-1))
	}
	for _, f := range p.Fields {
		parts = append(parts, f.String())
	}
	if p.Hidden != 0 {
		return "In(+unexported){" + strings.Join(parts, "; ") + "}"
	}
	if p.Embed {
		return "embedded In{" + strings.Join(parts, "; ") + "}"
	}
	return "In{" + strings.Join(parts, "; ") + "}"
}

func (r Result) String() string {
	switch r.Kind {
	case RSingle:
		s := TypeName(r.T)
		if r.Name != "" {
			s += "[name=" + r.Name + "]"
		}
		return s
	case RGroup:
		s := TypeName(r.T)
		if r.Flatten {
			s = "[]" + s
		}
		s += "[group=" + r.Group
		if r.Flatten {
			s += ",flatten"
		}
		return s + "]"
	}
	var parts []string
	for _, f := range r.Fields {
		parts = append(parts, f.String())
	}
	return "Out{" + strings.Join(parts, "; ") + "}"
}

type OpKind int

const (
	OpScope OpKind = iota
	OpProvide
	OpDecorate
	OpInvoke
	OpVisualize
	OpString
	OpMalformed // a registration or Invoke with a value from the malformed grammar
)

func (k OpKind) String() string {
	return [...]string{"scope", "provide", "decorate", "invoke", "visualize", "string", "malformed"}[k]
}

// Op is one API call of the history. Scope is the index of the scope the call
// targets (0 = the container / root scope); for OpScope it is the parent and
// the new scope gets the next free index.
type Op struct {
	Kind    OpKind `json:"kind"`
	Scope   int    `json:"scope"`
	Fn      int    `json:"fn,omitempty"`       // index into History.Funcs
	ErrFrom int    `json:"err_from,omitempty"` // OpVisualize: 1+index of the op whose error is passed (0 none)
	Mal     *Mal   `json:"mal,omitempty"`      // OpMalformed
	Census  bool   `json:"census,omitempty"`   // probe appended by the harness
	Retry   bool   `json:"retry,omitempty"`    // repeats the previous Invoke (same scope, same parameters)
	Tag     string `json:"tag,omitempty"`      // template that emitted it (evidence only)
}

type FaultKind int

const (
	FaultNone FaultKind = iota
	FaultErr
	FaultErrPartial
	FaultPanic
	FaultCBPanic // the function's *callback* panics after these executions (the function itself behaves)
)

func (k FaultKind) String() string {
	return [...]string{"none", "err", "err+partial", "panic", "callback-panic"}[k]
}

// Fault makes executions [From, To) of function Fn fail (To < 0: forever).
type Fault struct {
	Fn   int       `json:"fn"`
	From int       `json:"from"`
	To   int       `json:"to"`
	Kind FaultKind `json:"kind"`
}

type Config struct {
	Recover     bool   `json:"recover"`
	Defer       bool   `json:"defer"`
	DryRun      bool   `json:"dry_run"`
	OptNoise    bool   `json:"opt_noise,omitempty"` // the container options are preceded by DryRun with the opposite value (the last one wins)
	ShuffleSeed int64  `json:"shuffle_seed"`
	PanicKind   int    `json:"panic_kind"`         // 0 struct value, 1 error value, 2 string, 3 error value wrapping a dig error
	ValMask     uint32 `json:"val_mask,omitempty"` // universe positions realised as struct values V<i> (dynamic stubs only)
	AltMask     uint32 `json:"alt_mask,omitempty"` // universe positions realised as same-named types of package digsim/altsim (dynamic stubs only)
}

// History is everything a run depends on. It is the replay file.
type History struct {
	Prop   string     `json:"prop"`
	Seed   int64      `json:"seed"`
	Run    int64      `json:"run"`
	Class  string     `json:"class,omitempty"`
	Cfg    Config     `json:"cfg"`
	Funcs  []Func     `json:"funcs"`
	Ops    []Op       `json:"ops"`
	Faults []Fault    `json:"faults,omitempty"`
	Graph  *GraphCase `json:"graph,omitempty"` // C05: explicit digraph for the cycle detector (no ops)
}

func (h *History) Clone() *History {
	c := *h
	c.Funcs = append([]Func(nil), h.Funcs...)
	c.Ops = append([]Op(nil), h.Ops...)
	c.Faults = append([]Fault(nil), h.Faults...)
	return &c
}

// NumScopes is the number of scopes the history creates, root included.
func (h *History) NumScopes() int {
	n := 1
	for _, o := range h.Ops {
		if o.Kind == OpScope {
			n++
		}
	}
	return n
}

func (h *History) Describe() []string {
	var out []string
	defer func(m, a uint32) { curValMask, curAltMask = m, a }(curValMask, curAltMask)
	curValMask, curAltMask = h.Cfg.ValMask, h.Cfg.AltMask
	if h.Cfg.AltMask != 0 {
		out = append(out, fmt.Sprintf("universe positions realised by same-named types of another package: mask %#x", h.Cfg.AltMask))
	}
	if h.Cfg.ValMask != 0 {
		out = append(out, fmt.Sprintf("struct-valued universe positions: mask %#x", h.Cfg.ValMask))
	}
	if h.Graph != nil {
		out = append(out, fmt.Sprintf("IsAcyclic on digraph n=%d adjacency=%v", h.Graph.N, h.Graph.Edges))
	}
	sc := 1
	for i, o := range h.Ops {
		s := fmt.Sprintf("%2d s%d %s", i, o.Scope, o.Kind)
		switch o.Kind {
		case OpScope:
			s += fmt.Sprintf(" -> s%d", sc)
			sc++
		case OpProvide, OpDecorate, OpInvoke:
			s += " " + h.Funcs[o.Fn].String()
		case OpVisualize:
			if o.ErrFrom > 0 {
				s += fmt.Sprintf(" err-of-op%d", o.ErrFrom-1)
			}
		case OpMalformed:
			s += " " + o.Mal.String()
		}
		if o.Census {
			s += " (census)"
		}
		if o.Retry {
			s += " (retry)"
		}
		out = append(out, s)
	}
	for _, f := range h.Faults {
		out = append(out, fmt.Sprintf("fault f%d execs[%d,%d) %s", f.Fn, f.From, f.To, f.Kind))
	}
	return out
}

// deAnon rewrites parameter objects that carry an anonymous plain-struct field
// (AnonVal) into the equivalent object with an ordinary first field of the same
// key: what a reflect-made stub of the same spec can express.
func deAnon(ps []Param) []Param {
	out := make([]Param, len(ps))
	for i, p := range ps {
		if p.Kind == PObj {
			p.Fields = deAnon(p.Fields)
			if p.AnonVal > 0 {
				p.Fields = append([]Param{{Kind: PSingle, T: TPlain + p.AnonVal - 1, Opt: true}}, p.Fields...)
				p.AnonVal = 0
				p.Hidden = 0
			}
		}
		out[i] = p
	}
	return out
}
