//go:build verif

package sim

import (
	"os"
	"path/filepath"
	"testing"
)

func TestParseGolden(t *testing.T) {
	files, _ := filepath.Glob("/repo/testdata/*.dot")
	if len(files) == 0 {
		t.Skip("no golden files")
	}
	for _, f := range files {
		b, _ := os.ReadFile(f)
		g, err := ParseDot(string(b))
		if err != nil {
			t.Errorf("%s: %v", f, err)
			continue
		}
		t.Logf("%s: %d nodes %d edges %d clusters", filepath.Base(f), len(g.Nodes), len(g.Edges), len(g.Clusters))
	}
	for _, good := range []string{
		"// c\n/* block\n c */ digraph { a -> b; /* x */ } // end\n",
		"# 1 \"f\"\ndigraph {\n# 2\n a; }\n",
		`strict digraph G { graph [a=b]; node [c=d]; edge [e=f]; label="x"; a -> b [k=v, l=w; m=n]; }`,
	} {
		if _, err := ParseDot(good); err != nil {
			t.Errorf("rejected %q: %v", good, err)
		}
	}
	for _, bad := range []string{
		"digraph { a; /* never closed }",
		`digraph { a [label=<<-chan int>>]; }`,
		`digraph { a [label=<x<BR />y & z>]; }`,
		`digraph { a -> ; }`,
		`digraph { a [label=<<FONT>x>]; }`,
		`digraph { "a`,
		`digraph { subgraph c { a; }`,
	} {
		if _, err := ParseDot(bad); err == nil {
			t.Errorf("accepted %q", bad)
		}
	}
}
