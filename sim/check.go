package sim

import (
	"fmt"
	"reflect"
	"sort"
	"strings"
)

// Violation is one failed oracle. Class identifies the oracle (stable across
// minimisation); Props lists the properties the failure counts against.
type Violation struct {
	Props  []string `json:"props"`
	Class  string   `json:"class"`
	Op     int      `json:"op"`
	Detail string   `json:"detail"`
}

func (v Violation) Has(prop string) bool {
	for _, p := range v.Props {
		if p == prop {
			return true
		}
	}
	return false
}

// Checked is a history executed against real dig with the model and the
// oracles in the loop.
type Checked struct {
	H        *History
	R        *Run
	M        *Model
	Viol     []Violation
	Probes   map[string]int
	Diverged int // op index at which dig and the model disagreed on acceptance (-1: never)
	DivNote  string
	States   map[uint64]bool

	// per-function log-derived state
	okExits  map[int]int  // fn -> number of fn-exit(ok)
	lastFail map[int]bool // fn failed on its last execution
	entered  map[int]int
	// C07 retry bookkeeping: first failing function of the previous Invoke
	prevFail     int
	prevFailOp   int
	poisonUsed   bool
	invokeScope  int
	accepted     map[int]bool // fn ids of accepted registrations
	rejected     map[int]bool
	cbExpected   map[int]bool
	registeredAt map[int]int
	curClosure   *Closure
	lastInv      map[int]*invSummary
	rejKeys      []Key
	HarmlessFail map[int]bool // Invokes that failed at their own shallow dependency check (nothing was resolved)
	// OrderDep: functions one of whose arguments may legitimately depend on the
	// order of resolution: a decorator of that key can be on the stack while the
	// function is built (dig then skips it, DESIGN §9 R2).
	OrderDep    map[int]bool
	R3          bool // a decorator-introduced key (decorated, never provided) was live at some Invoke
	groupSeen   map[groupReq]int
	typeKeys    map[int]map[Key]bool
	touchAfter  int
	faultBefore bool // an injected fault fired in an earlier operation of this history
}

func (c *Checked) probe(name string) { c.Probes[name]++ }

func (c *Checked) viol(op int, class, detail string, props ...string) {
	c.Viol = append(c.Viol, Violation{Props: props, Class: class, Op: op, Detail: detail})
}

func NewChecked(h *History) *Checked {
	return &Checked{H: h, R: NewRun(h), M: NewModel(h.Cfg.Defer), Probes: map[string]int{}, Diverged: -1,
		States: map[uint64]bool{}, okExits: map[int]int{}, lastFail: map[int]bool{}, entered: map[int]int{},
		groupSeen: map[groupReq]int{}, typeKeys: map[int]map[Key]bool{}, prevFail: -1, accepted: map[int]bool{}, rejected: map[int]bool{}, cbExpected: map[int]bool{}, registeredAt: map[int]int{}}
}

type groupReq struct {
	Scope int
	Key   Key
}

// RunChecked executes the history op by op; after each op the oracles look at
// what happened against the model state before the op, then the model follows
// what dig accepted.
func RunChecked(h *History) *Checked {
	c := NewChecked(h)
	for i := range h.Ops {
		c.Step(i)
	}
	return c
}

func (c *Checked) modelOK() bool { return c.Diverged < 0 }

func (c *Checked) Step(i int) {
	op := c.H.Ops[i]
	res := c.R.Exec(i)
	evs := c.R.Events(i)
	c.States[c.M.StateHash()] = true

	if len(c.rejKeys) > 0 && (op.Kind == OpProvide || op.Kind == OpDecorate || op.Kind == OpInvoke) {
		f := &c.H.Funcs[op.Fn]
		touch := false
		for _, k := range c.rejKeys {
			if hasKey(f.AllKeys(), k) {
				touch = true
			}
			for _, p := range f.LeafParams() {
				if p.Key == k {
					touch = true
				}
			}
		}
		if touch {
			c.touchAfter++
			if c.touchAfter >= 2 {
				c.probe("reuse_after_reject")
			}
		}
	}
	if op.Kind == OpInvoke && c.modelOK() && !c.R3 {
		for _, sc := range c.M.S {
			for _, d := range sc.Decs {
				for _, r := range d.LR {
					for _, k := range r.Keys {
						if len(c.M.AllProv(d.Scope, k)) == 0 && !k.IsGroup() {
							c.R3 = true
						}
					}
				}
			}
		}
	}
	if op.Kind == OpInvoke && c.modelOK() && res.Verdict != VOK && !res.Facts.Escaped {
		if c.M.MissingShallow(Consumer{Scope: op.Scope, Fn: -1}, c.H.Funcs[op.Fn].LeafParams()) {
			if c.HarmlessFail == nil {
				c.HarmlessFail = map[int]bool{}
			}
			c.HarmlessFail[i] = true
		}
	}
	if op.Tag != "" && op.Kind == OpInvoke {
		// reach of the workload templates (DESIGN §4.1)
		c.probe("tmpl:" + op.Tag)
		if res.Verdict == VOK {
			c.probe("tmpl:" + op.Tag + ":ok")
		}
	}
	c.curClosure = nil
	if op.Kind == OpInvoke && c.modelOK() && !c.H.Cfg.DryRun {
		c.curClosure = c.M.ClosureOf(Consumer{Scope: op.Scope, Fn: -1}, c.H.Funcs[op.Fn].LeafParams())
	}

	// ---- oracles that need only the log
	c.checkLogRules(i, op, res, evs)
	c.checkErrorFacts(i, op, res, evs)
	c.checkCallbacks(i, op, res, evs)

	c.checkInfo(i, op, res, evs)
	if op.Kind == OpInvoke && !c.H.Cfg.DryRun {
		c.summariseInvoke(i, op, res, evs)
	}
	if op.Kind == OpVisualize {
		c.checkDot(i, op, res)
	}
	if op.Kind == OpString && res.Facts.Escaped {
		c.viol(i, "string-panic", firstLine(res.Facts.EscText), "C14")
	}

	// ---- oracles that need the model (state before the op)
	if c.modelOK() && !c.H.Cfg.DryRun {
		c.checkProvenance(i, op, res, evs)
		if op.Kind == OpInvoke {
			c.checkInvokeModel(i, op, res, evs)
		}
	}
	if c.H.Cfg.DryRun {
		for _, e := range evs {
			if e.Kind == EvEnter {
				c.viol(i, "dry-run-executed", fmt.Sprintf("f%d executed in a DryRun container", e.Fn), "C17")
			}
		}
	}

	// ---- fold the log into the model's built bits
	for _, e := range evs {
		if e.Kind == EvExit && e.Out == OutOK {
			if n, ok := c.M.ByFn[e.Fn]; ok {
				n.Built, n.Minted = true, e.Minted
			}
			if d, ok := c.M.DByFn[e.Fn]; ok {
				d.Built, d.Minted = true, e.Minted
			}
		}
	}

	for _, e := range evs {
		if (e.Kind == EvExit && e.Out != OutOK) || (e.Kind == EvCallback && e.CB.Panicked) {
			c.faultBefore = true
		}
	}

	// ---- advance the model by what dig accepted
	c.advance(i, op, res)
	// a registration issued by the invoked function's body counts as a Provide
	// issued right after the Invoke: same acceptance oracle, same bookkeeping
	for _, np := range c.R.W.NestedProv {
		if np.Op == i {
			c.probe("provide_inside_invoke")
			nres := &OpResult{Op: i, Verdict: verdictOf(np.Facts), Facts: np.Facts}
			c.advance(i, Op{Kind: OpProvide, Scope: np.Scope, Fn: np.Fn}, nres)
			c.checkErrorFacts(i, Op{Kind: OpProvide, Scope: np.Scope, Fn: np.Fn}, nres, nil)
		}
	}
}

// afterFault adds C07 to the properties a violation counts against when an
// injected failure happened earlier in the history: whatever goes wrong now on
// a fault-free path is then (also) something a failed execution left behind.
func (c *Checked) orderDep(fn int) {
	if c.OrderDep == nil {
		c.OrderDep = map[int]bool{}
	}
	c.OrderDep[fn] = true
}

func (c *Checked) afterFault(props ...string) []string {
	if c.faultBefore {
		return append(props, "C07")
	}
	return props
}

func (c *Checked) advance(i int, op Op, res *OpResult) {
	switch op.Kind {
	case OpScope:
		for _, x := range c.M.Path(op.Scope) {
			if len(c.M.S[x].Ctors) > 0 {
				c.probe("scope_after_provide")
				break
			}
		}
		c.M.AddScope(op.Scope)
	case OpProvide:
		f := &c.H.Funcs[op.Fn]
		pred := PredInvalid
		if c.modelOK() {
			pred = c.M.PredictProvide(op.Scope, f)
		}
		acc := res.Verdict == VOK
		c.registeredAt[f.ID] = i
		if acc {
			c.accepted[f.ID] = true
		} else {
			c.rejected[f.ID] = true
		}
		if !c.modelOK() {
			return
		}
		c.checkAcceptance(i, op, res, pred)
		switch {
		case acc && (pred == PredOK || pred == PredCycleEither):
			n := c.M.AddCtor(op.Scope, i, f)
			for li, r := range n.LR {
				ct := c.leafType(f, li)
				for _, k := range r.Keys {
					if c.typeKeys[ct] == nil {
						c.typeKeys[ct] = map[Key]bool{}
					}
					c.typeKeys[ct][k] = true
					if len(c.typeKeys[ct]) >= 2 {
						c.probe("type_under_two_keys")
					}
				}
			}
		case !acc && pred != PredOK:
		default:
			c.Diverged, c.DivNote = i, fmt.Sprintf("provide f%d: model %s, dig %s (%s)", f.ID, pred, res.Verdict, res.Facts.Text)
		}
	case OpDecorate:
		f := &c.H.Funcs[op.Fn]
		acc := res.Verdict == VOK
		c.registeredAt[f.ID] = i
		if acc {
			c.accepted[f.ID] = true
		} else {
			c.rejected[f.ID] = true
		}
		if !c.modelOK() {
			return
		}
		pred := c.M.PredictDecorate(op.Scope, f)
		c.checkAcceptance(i, op, res, pred)
		switch {
		case acc && pred == PredOK:
			c.M.AddDec(op.Scope, i, f)
		case !acc && pred != PredOK:
		default:
			c.Diverged, c.DivNote = i, fmt.Sprintf("decorate f%d: model %s, dig %s (%s)", f.ID, pred, res.Verdict, res.Facts.Text)
		}
	}
}

// leafType is the concrete payload type of result leaf li of f.
func (c *Checked) leafType(f *Func, li int) int {
	k := 0
	var find func(rs []Result) int
	find = func(rs []Result) int {
		for _, r := range rs {
			if r.Kind == RObj {
				if t := find(r.Fields); t >= 0 {
					return t
				}
				continue
			}
			if k == li {
				return r.T
			}
			k++
		}
		return -1
	}
	return find(f.Results)
}

// checkAcceptance compares dig's verdict on a registration with the model's
// prediction (C09 duplicate rule, C05 cycle readings, C12 one decorator per key).
func (c *Checked) checkAcceptance(i int, op Op, res *OpResult, pred Pred) {
	f := &c.H.Funcs[op.Fn]
	v := res.Verdict
	what := fmt.Sprintf("%s f%d in s%d: model predicts %s, dig answered %s (%s)", op.Kind, f.ID, op.Scope, pred, v, res.Facts.Text)
	switch pred {
	case PredOK:
		if v == VCycle {
			c.viol(i, "spurious-cycle", what, "C05")
		} else if v != VOK && !res.Facts.Escaped {
			c.viol(i, "spurious-reject", what, "C09", "C06")
		}
	case PredDup:
		if v == VOK {
			if op.Kind == OpDecorate {
				c.viol(i, "second-decorator-accepted", what, "C12")
			} else {
				c.viol(i, "duplicate-accepted", what, "C09")
			}
		}
	case PredCycle:
		if v == VOK {
			c.viol(i, "cycle-accepted", what, "C05")
		} else if v != VCycle && !res.Facts.Escaped {
			c.viol(i, "cycle-misclassified", what, "C05", "C13")
		}
	case PredCycleEither:
		if v != VOK && v != VCycle && !res.Facts.Escaped {
			c.viol(i, "cycle-misclassified", what, "C05", "C13")
		}
	}
	if v == VCycle {
		c.probe("cycle_reported")
		c.probe("reject_cycle")
		if op.Kind == OpProvide && pred == PredCycle {
			// does the target scope's own view hold the cycle, or only a descendant's?
			target := op.Scope
			if f.Export {
				target = 0
			}
			n := &MCtor{Fn: f.ID, Home: target, Origin: op.Scope, LP: f.LeafParams(), LR: f.LeafResults()}
			c.M.link(n)
			own := c.M.onCycle(n, func(x *MCtor) []*MCtor { return c.M.succView(x, target, false) })
			c.M.unlink(n)
			if !own {
				c.probe("cycle_descendant_only")
			}
		}
	}
	if v != VOK {
		if pred == PredDup {
			c.probe("duplicate_attempted")
			c.probe("reject_dup")
		}
		if op.Kind == OpDecorate {
			c.probe("reject_decorate")
		}
		c.rejKeys = append(c.rejKeys, f.AllKeys()...)
	} else if op.Kind == OpProvide && !c.M.Defer {
		// near-cycle: accepted although one more edge would close a cycle
		// is approximated by: accepted with >= 2 scopes and some parameter
		if len(c.M.S) >= 2 && len(f.Params) > 0 && c.H.Funcs[op.Fn].Role == RoleCtor && c.wouldCloseCycle(op.Scope, f) {
			c.probe("near_cycle_accepted")
		}
	}
}

// wouldCloseCycle: adding one reverse edge (some dependency of f depending on
// one of f's results) would create a cycle -- i.e. f has a dependency with a
// visible provider.
func (c *Checked) wouldCloseCycle(scope int, f *Func) bool {
	for _, p := range f.LeafParams() {
		if len(c.M.AllProv(scope, p.Key)) > 0 {
			return true
		}
	}
	return false
}

// ---------------------------------------------------------------- log rules (C02, C03 part, C07, C06 part)

func (c *Checked) checkLogRules(i int, op Op, res *OpResult, evs []Event) {
	firstFail := -1
	firstFailExec := -1
	var failKind ExitKind
	enteredHere := map[int]bool{}
	inCB := map[int]bool{} // functions whose callback is running a nested request
	for k := range evs {
		e := &evs[k]
		switch e.Kind {
		case EvCallback:
			// (a callback under a callback-panic fault panics before it issues
			// its nested request)
			if f := &c.H.Funcs[e.Fn]; f.Reenter && f.ReCB && !e.CB.Panicked {
				inCB[e.Fn] = true
			}
		case EvNested:
			if e.Exec != -2 && e.Exec < 100 {
				delete(inCB, e.Fn)
			}
			if e.Exec == -2 && inCB[e.Fn] && len(e.Args) == 1 {
				c.checkOwnResultFromCallback(i, e, evs[:k])
			}
		case EvEnter:
			f := &c.H.Funcs[e.Fn]
			if op.Kind != OpInvoke {
				c.viol(i, "executed-outside-invoke", fmt.Sprintf("f%d executed during %s", e.Fn, op.Kind), "C03")
			}
			if c.okExits[e.Fn] > 0 {
				c.viol(i, "reentered-after-success", fmt.Sprintf("%s f%d executed again (exec %d) after it had returned successfully", f.Role, e.Fn, e.Exec), "C02")
			}
			for _, o := range c.R.W.Log[c.R.Res[i].EvFrom : c.R.Res[i].EvFrom+k] {
				_ = o
			}
			if c.rejected[e.Fn] {
				c.viol(i, "rejected-function-executed", fmt.Sprintf("%s f%d was rejected at op %d but executed", f.Role, e.Fn, c.registeredAt[e.Fn]), "C06", "C01")
			}
			if f.Role != RoleInv && !c.accepted[e.Fn] && !c.rejected[e.Fn] {
				c.viol(i, "unregistered-function-executed", fmt.Sprintf("f%d", e.Fn), "C01")
			}
			// nested entry while already being built
			if open := c.openAt(i, k); open[e.Fn] {
				c.viol(i, "entered-while-open", fmt.Sprintf("f%d entered while already executing", e.Fn), "C02", "C05")
			}
			if inCB[e.Fn] {
				c.viol(i, "entered-from-own-callback", fmt.Sprintf("f%d entered again by a request issued from its own callback, i.e. while its call is still in progress", e.Fn), "C02", "C05")
			}
			enteredHere[e.Fn] = true
			c.entered[e.Fn]++
			for ai, a := range e.Args {
				if a.Bad != "" {
					c.viol(i, "bad-argument", fmt.Sprintf("f%d arg %d: %s %v", e.Fn, ai, a.Bad, a.Serials), "C01", "C02")
				}
				for _, s := range a.Serials {
					if s >= 0 && int(s) < len(c.R.W.Tokens) && c.R.W.Tokens[s].Poison {
						t := c.R.W.Tokens[s]
						c.viol(i, "poison-delivered", fmt.Sprintf("f%d arg %d received a value returned by failed execution %d of f%d", e.Fn, ai, t.Exec, t.Fn), "C07", "C01")
					}
				}
			}
		case EvExit:
			if e.Out == OutOK {
				c.okExits[e.Fn]++
				c.lastFail[e.Fn] = false
				if c.okExits[e.Fn] > 1 {
					c.viol(i, "succeeded-twice", fmt.Sprintf("f%d returned successfully %d times", e.Fn, c.okExits[e.Fn]), "C02")
				}
			} else {
				c.lastFail[e.Fn] = true
				// a failure inside a nested request issued by user code stays
				// there (the stubs ignore its outcome)
				if firstFail < 0 && e.Nest == 0 {
					firstFail, firstFailExec, failKind = e.Fn, e.Exec, e.Out
				}
			}
		}
	}
	if op.Kind != OpInvoke {
		return
	}
	inv := &c.H.Funcs[op.Fn]
	// C07: the failing Invoke's root cause is the first failure logged in it.
	if firstFail >= 0 && c.H.Funcs[firstFail].Role != RoleInv {
		c.probe("fault_in_dependency")
		want := [2]int{firstFail, firstFailExec}
		f := res.Facts
		cbPanicked := false
		for _, e := range evs {
			if e.Kind == EvCallback && e.CB.Panicked && e.Nest == 0 {
				// a panicking callback takes over from whatever the function
				// itself reported: no claim about the root cause then
				cbPanicked = true
			}
		}
		switch {
		case cbPanicked:
		case failKind == OutErr:
			if f.RootInj != want {
				c.viol(i, "root-cause-lost", fmt.Sprintf("f%d failed with its injected error (exec %d) but Invoke returned verdict %s root=%v (%s)", firstFail, firstFailExec, res.Verdict, f.RootInj, f.Text), "C07", "C13")
			}
		case failKind == OutPanic && c.H.Cfg.Recover:
			if !(f.RootPanic && f.PanicInj == want) {
				c.viol(i, "panic-cause-lost", fmt.Sprintf("f%d panicked (exec %d, recovery on) but Invoke returned verdict %s (%s)", firstFail, firstFailExec, res.Verdict, f.Text), "C07", "C13")
			}
		case failKind == OutPanic:
			if !(f.Escaped && f.EscInj == want) {
				c.viol(i, "panic-swallowed", fmt.Sprintf("f%d panicked (exec %d, recovery off) but the panic did not reach the caller: verdict %s (%s)", firstFail, firstFailExec, res.Verdict, f.Text), "C07", "C13")
			}
		}
		if enteredHere[inv.ID] {
			c.viol(i, "invoked-despite-failure", fmt.Sprintf("f%d failed but the invoked function f%d ran", firstFail, inv.ID), "C07", "C01")
		}
	}
	// C07 retry: the previous op was the same Invoke and failed because of
	// prevFail -> this one must execute prevFail again.
	// (A dependency loop through a decorator may have cached what the Invoke
	// needs on the first attempt, so the claim is made only when the model's
	// closure of this Invoke still contains the failed function and no
	// decorator loop is involved.)
	for _, e := range evs {
		if e.Kind == EvNested && e.Exec < 100 {
			c.probe("reentrant_demand")
			if e.Exec == -2 {
				// satisfied without re-entering the constructor (e.g. by a
				// decorator that replaces the value): legitimate
				c.probe("reentrant_demand_satisfied")
			}
		}
	}
	// If the retry fails for a reason of its own (another fault fires first, a
	// dependency is missing on the only remaining path to the failed function)
	// resolution need not reach the failed function: the claim is made when the
	// retry succeeds although the failed function lies in what a successful
	// Invoke must have executed.
	if c.prevFail >= 0 && c.prevFailOp == i-1 && c.sameInvoke(i-1, i) &&
		c.curClosure != nil && c.curClosure.Fns[c.prevFail] && !c.curClosure.Loop &&
		res.Verdict == VOK && c.M.MustClosure(Consumer{Scope: op.Scope, Fn: -1}, inv.LeafParams()).Fns[c.prevFail] {
		c.probe("retry_after_failure")
		if !enteredHere[c.prevFail] {
			role := c.H.Funcs[c.prevFail].Role
			c.viol(i, "failed-function-not-retried", fmt.Sprintf("%s f%d failed in op %d; the identical Invoke at op %d did not execute it again (verdict %s)", role, c.prevFail, i-1, i, res.Verdict), "C07", "C12")
		} else if !c.lastFail[c.prevFail] {
			c.probe("retry_healed")
		}
	}
	c.prevFail = -1
	if firstFail >= 0 && c.H.Funcs[firstFail].Role != RoleInv {
		c.prevFail, c.prevFailOp = firstFail, i
	}
	// exactly-once for the invoked function
	n := 0
	for _, e := range evs {
		if e.Kind == EvEnter && e.Fn == inv.ID {
			n++
		}
	}
	if res.Verdict == VOK && n != 1 && !c.H.Cfg.DryRun {
		c.viol(i, "invoke-count", fmt.Sprintf("Invoke succeeded but the function f%d was called %d times", inv.ID, n), "C01")
	}
	if n > 1 {
		c.viol(i, "invoke-count", fmt.Sprintf("invoked function f%d was called %d times", inv.ID, n), "C01")
	}
}

// sameInvoke: ops a and b are Invokes from the same scope with identical
// parameter lists.
func (c *Checked) sameInvoke(a, b int) bool {
	oa, ob := c.H.Ops[a], c.H.Ops[b]
	if oa.Kind != OpInvoke || ob.Kind != OpInvoke || oa.Scope != ob.Scope {
		return false
	}
	return reflect.DeepEqual(c.H.Funcs[oa.Fn].Params, c.H.Funcs[ob.Fn].Params)
}

// openAt returns the set of functions whose body is open at event k of op i.
func (c *Checked) openAt(i, k int) map[int]bool {
	open := map[int]bool{}
	evs := c.R.Events(i)
	for _, e := range evs[:k] {
		switch e.Kind {
		case EvEnter:
			open[e.Fn] = true
		case EvExit:
			delete(open, e.Fn)
		}
	}
	return open
}

// ---------------------------------------------------------------- error facts (C13)

func (c *Checked) checkErrorFacts(i int, op Op, res *OpResult, evs []Event) {
	f := res.Facts
	if op.Kind == OpInvoke {
		inv := &c.H.Funcs[op.Fn]
		// the invoked function's own outcome
		for _, e := range evs {
			if e.Kind != EvExit || e.Fn != inv.ID {
				continue
			}
			want := [2]int{inv.ID, e.Exec}
			switch e.Out {
			case OutErr:
				c.probe("invoke_fn_error")
				if !(f.Same && f.RootInj == want) {
					c.viol(i, "invoke-error-changed", fmt.Sprintf("invoked f%d returned its injected error; Invoke returned %q (same=%v)", inv.ID, f.Text, f.Same), "C13")
				}
			case OutPanic:
				c.probe("invoke_fn_panic")
				if c.H.Cfg.Recover {
					if !(f.RootPanic && f.PanicInj == want) || f.RootDigErr {
						c.viol(i, "invoke-panic-not-surfaced", fmt.Sprintf("invoked f%d panicked (recovery on); Invoke returned %q", inv.ID, f.Text), "C13")
					}
				} else if !(f.Escaped && f.EscInj == want) {
					c.viol(i, "invoke-panic-swallowed", fmt.Sprintf("invoked f%d panicked (recovery off); verdict %s", inv.ID, res.Verdict), "C13")
				}
			case OutOK:
				if res.Verdict != VOK {
					c.viol(i, "invoke-ok-but-error", fmt.Sprintf("invoked f%d returned nil but Invoke returned %q", inv.ID, f.Text), "C13", "C01")
				}
			}
		}
	}
	if f.Nil || f.Escaped {
		if f.Escaped && f.EscInj[0] < 0 {
			what := op.Kind.String()
			if op.Kind == OpMalformed {
				what = op.Mal.String()
			}
			if stubPanic(f.EscStack) {
				// the simulated environment itself panicked (not an injected
				// fault): a bug of the harness, never a finding
				c.viol(i, "harness-stub-panic", fmt.Sprintf("%s: a stub of the simulated environment panicked: %s", what, firstLine(f.EscText)), "HARNESS")
				return
			}
			props := []string{"C14"}
			if len(c.rejKeys) > 0 {
				// "a rejected Provide or Decorate ... causes no later error or panic"
				props = append(props, "C06")
			}
			c.viol(i, "api-panic@"+digFrame(f.EscStack), fmt.Sprintf("%s panicked: %s", what, firstLine(f.EscText)), props...)
		}
		return
	}
	// classification of a returned error
	switch {
	case f.RootInj[0] >= 0:
		c.probe("err_root_injected")
		if f.IsInj != f.RootInj {
			c.viol(i, "errors-is-broken", fmt.Sprintf("RootCause is the injected error of f%d but errors.Is does not find it", f.RootInj[0]), "C13")
		}
		if f.Cycle {
			c.viol(i, "cycle-flag-on-user-error", f.Text, "C13")
		}
	case f.RootPanic:
		c.probe("err_root_panic")
		if f.PanicInj[0] < 0 {
			// a panic that is not an injected one was recovered by
			// RecoverFromPanics: the call did return an error
			c.probe("foreign_panic_recovered")
		}
		if f.RootDigErr {
			c.viol(i, "panic-error-is-dig-error", f.Text, "C13")
		}
		if !c.H.Cfg.Recover {
			c.viol(i, "panic-recovered-without-option", f.Text, "C13")
		}
	default:
		c.probe("err_dig_originated")
		if !f.RootDigErr {
			c.viol(i, "dig-failure-not-dig-error:"+f.RootTypeStr, fmt.Sprintf("%s returned an error that originates in dig but RootCause (%s) is not a dig.Error: %s", op.Kind, f.RootTypeStr, f.Text), "C13")
		}
	}
}

// digFrame names the innermost dig function on a panic's stack: it
// identifies the defect and is stable under minimisation.
// stubPanic: the panic was raised inside the simulator's own stub code (frames
// of digsim come before the first frame of dig below the panic).
func stubPanic(stack string) bool {
	below := false
	for _, l := range strings.Split(stack, "\n") {
		if strings.HasPrefix(l, "panic(") {
			below = true
			continue
		}
		if !below || strings.HasPrefix(l, "\t") {
			continue
		}
		if strings.HasPrefix(l, "go.uber.org/dig") {
			return false
		}
		if strings.HasPrefix(l, "digsim.(*World).") || strings.HasPrefix(l, "digsim.cat") {
			return true
		}
	}
	return false
}

func digFrame(stack string) string {
	for _, l := range strings.Split(stack, "\n") {
		if strings.HasPrefix(l, "go.uber.org/dig") && !strings.Contains(l, "dig.(*Scope).Invoke(") {
			if i := strings.LastIndex(l, "("); i > 0 {
				l = l[:i]
			}
			return strings.TrimPrefix(l, "go.uber.org/")
		}
	}
	return "unknown"
}

func firstLine(s string) string {
	if i := strings.IndexByte(s, '\n'); i >= 0 {
		return s[:i]
	}
	return s
}

// ---------------------------------------------------------------- callbacks (C20)

func (c *Checked) checkCallbacks(i int, op Op, res *OpResult, evs []Event) {
	if c.H.Cfg.DryRun {
		return
	}
	for k := range evs {
		e := &evs[k]
		switch e.Kind {
		case EvExit:
			f := &c.H.Funcs[e.Fn]
			if !f.Callback || f.Role == RoleInv {
				continue
			}
			// the callback must be the next event
			if k+1 >= len(evs) || evs[k+1].Kind != EvCallback || evs[k+1].Fn != e.Fn {
				if e.Out == OutPanic && !c.H.Cfg.Recover {
					// unrecovered panic: the statement fixes only the count
				}
				c.viol(i, "callback-missing", fmt.Sprintf("%s f%d executed (outcome %s) but its callback did not fire right after", f.Role, e.Fn, e.Out), "C20")
				continue
			}
			cb := evs[k+1].CB
			c.probe("callback_fired")
			want := [2]int{e.Fn, e.Exec}
			switch e.Out {
			case OutOK:
				if !cb.ErrNil {
					c.viol(i, "callback-error-on-success", fmt.Sprintf("f%d succeeded, callback Error non-nil", e.Fn), "C20")
				}
			case OutErr:
				c.probe("callback_error")
				if cb.RootInj != want {
					c.viol(i, "callback-wrong-error", fmt.Sprintf("f%d failed with its injected error, callback saw nil=%v root=%v", e.Fn, cb.ErrNil, cb.RootInj), "C20")
				}
			case OutPanic:
				if c.H.Cfg.Recover {
					c.probe("callback_panic")
					if !(cb.IsPanic && cb.PanicInj == want) {
						c.viol(i, "callback-wrong-panic", fmt.Sprintf("f%d panicked (recovery on), callback saw nil=%v panic=%v", e.Fn, cb.ErrNil, cb.IsPanic), "C20")
					}
				}
			}
			// time inside the function: from its fn-enter to its fn-exit on the
			// simulated clock (its own duration plus whatever nested requests
			// its body issued; never its dependencies)
			spent := f.DurNs
			for b := k - 1; b >= 0; b-- {
				if evs[b].Kind == EvEnter && evs[b].Fn == e.Fn && evs[b].Exec == e.Exec {
					spent = e.SimT - evs[b].SimT
					break
				}
			}
			if cb.RuntimeNs != spent {
				c.viol(i, "callback-runtime", fmt.Sprintf("f%d spent %dns inside its body, callback Runtime %dns", e.Fn, spent, cb.RuntimeNs), "C20")
			}
			if f.DurNs > 0 {
				c.probe("callback_runtime_checked")
			}
			if want := catalogName(f); want != "" && !nameIdentifies(cb.Name, want) {
				c.viol(i, "callback-name", fmt.Sprintf("f%d callback Name %q, want %q", e.Fn, cb.Name, want), "C20")
			}
		case EvCallback:
			if k == 0 || evs[k-1].Kind != EvExit || evs[k-1].Fn != e.Fn {
				c.viol(i, "callback-without-execution", fmt.Sprintf("callback of f%d fired without an execution right before", e.Fn), "C20")
			}
		}
	}
}

// nameIdentifies: the callback Name names the declared function: "<package
// path>.<Function>" in some spelling of the package; only the function part
// is compared exactly.
func nameIdentifies(got, want string) bool {
	fn := want[strings.LastIndex(want, ".")+1:]
	return got == want || strings.HasSuffix(got, "."+fn)
}

// catalogName is the expected callback Name of a catalogue function ("" for
// dynamic stubs, which all share one code address).
var catalogName = func(f *Func) string { return "" }

// ---------------------------------------------------------------- provenance (C01, C08, C09, C10, C11, C12, C04 zero rule)

func (c *Checked) tokKeys(t TokInfo) []Key {
	f := &c.H.Funcs[t.Fn]
	lr := f.LeafResults()
	if t.Leaf < len(lr) {
		return lr[t.Leaf].Keys
	}
	return nil
}

func hasKey(ks []Key, k Key) bool {
	for _, x := range ks {
		if x == k {
			return true
		}
	}
	return false
}

func (c *Checked) checkProvenance(i int, op Op, res *OpResult, evs []Event) {
	m := c.M
	builtAtCall := map[int]bool{}
	for fn, n := range m.ByFn {
		if n.Built {
			builtAtCall[fn] = true
		}
	}
	builtNow := map[int]bool{}
	for fn := range builtAtCall {
		builtNow[fn] = true
	}
	mintedNow := map[int][][]int64{}
	for k := range evs {
		e := &evs[k]
		if e.Kind == EvExit && e.Out == OutOK {
			builtNow[e.Fn] = true
			mintedNow[e.Fn] = e.Minted
			continue
		}
		if e.Kind != EvEnter {
			continue
		}
		f := &c.H.Funcs[e.Fn]
		cons, lp, reg := m.ConsumerOf(e.Fn, op.Scope)
		if !reg {
			if f.Role != RoleInv {
				continue // flagged by the log rules
			}
			lp = f.LeafParams()
		}
		if len(lp) != len(e.Args) {
			c.viol(i, "harness-arity", fmt.Sprintf("f%d: %d leaf params, %d observed", e.Fn, len(lp), len(e.Args)), "HARNESS")
			continue
		}
		minted := func(fn int) [][]int64 {
			if mm, ok := mintedNow[fn]; ok {
				return mm
			}
			if n, ok := m.ByFn[fn]; ok {
				return n.Minted
			}
			if d, ok := m.DByFn[fn]; ok {
				return d.Minted
			}
			return nil
		}
		for ai, p := range lp {
			a := e.Args[ai]
			who := fmt.Sprintf("%s f%d (scope s%d) param %d %s", f.Role, e.Fn, cons.Scope, ai, p.Key)
			if p.Key.IsGroup() {
				c.checkGroupArg(i, who, cons, p, a, builtAtCall, builtNow, minted, f, ai, lp)
				continue
			}
			srcs := m.Sources(cons, p.Key)
			src := srcs[0]
			if len(srcs) > 1 {
				c.probe("arg_decorator_maybe_on_stack")
				c.orderDep(e.Fn)
			}
			if src.Dec != nil {
				c.probe("arg_from_decorator")
			}
			if a.Zero {
				last := srcs[len(srcs)-1]
				switch {
				case !p.Opt:
					c.viol(i, "zero-for-required", who+": received the zero value", "C01", "C04")
				case src.Dec != nil:
					// decorated optional keys: outside the claim
				case last.Ctor != nil:
					av := m.newAvail()
					if av.ctorAvail(last.Ctor) == yes {
						props := []string{"C04", "C01"}
						if last.Ctor.Home != cons.Scope || last.Ctor.Origin != last.Ctor.Home {
							// the constructor is reached across scopes (from a
							// descendant, or exported): it is not "usable from"
							// where the rule of C08 says it is
							props = append(props, "C08")
						}
						c.viol(i, "zero-for-available-optional", fmt.Sprintf("%s: zero value although f%d provides it and is available", who, last.Ctor.Fn), props...)
					} else {
						c.probe("optional_over_gap")
					}
				default:
					c.probe("optional_unprovided")
				}
				continue
			}
			if len(a.Serials) != 1 || a.Serials[0] < 0 || int(a.Serials[0]) >= len(c.R.W.Tokens) {
				continue // flagged as bad-argument
			}
			t := c.R.W.Tokens[a.Serials[0]]
			tk := c.tokKeys(t)
			var props []string
			class := ""
			detail := ""
			match := false
			for _, s := range srcs {
				if !s.None() && s.Fn() == t.Fn {
					match = true
					src = s
				}
			}
			switch {
			case src.None() && len(srcs) == 1:
				class, props = "value-without-provider", []string{"C01", "C08", "C04"}
				detail = fmt.Sprintf("%s: received a value of f%d although no provider is visible", who, t.Fn)
			case !match:
				class, props = "wrong-producer", []string{"C01"}
				detail = fmt.Sprintf("%s: expected the value of f%d, received the value of f%d (leaf %d)", who, src.Fn(), t.Fn, t.Leaf)
				_, actualIsDec := m.DByFn[t.Fn]
				if src.Dec != nil || actualIsDec || c.H.Funcs[t.Fn].Role == RoleDec {
					class = "wrong-decoration"
					props = append(props, "C12")
				} else {
					props = append(props, "C08")
				}
			}
			if class == "" && !hasKey(tk, p.Key) {
				class, props = "wrong-key", []string{"C01", "C09"}
				detail = fmt.Sprintf("%s: received leaf %d of f%d which is stored under %v", who, t.Leaf, t.Fn, tk)
			} else if class != "" && !hasKey(tk, p.Key) {
				props = append(props, "C09")
			}
			if class == "" {
				// right function and key: must be the value of its successful execution
				mm := minted(t.Fn)
				ok := false
				for _, li := range leafFor(c.H.Funcs[t.Fn].LeafResults(), p.Key) {
					if li < len(mm) {
						for _, s := range mm[li] {
							if s == t.Serial {
								ok = true
							}
						}
					}
				}
				if !ok {
					class, props = "stale-value", []string{"C01", "C02", "C07"}
					detail = fmt.Sprintf("%s: received serial %d of f%d exec %d which is not the result of its successful execution", who, t.Serial, t.Fn, t.Exec)
				}
				if ok && isVal(p.Key.T) {
					c.probe("arg_struct_value")
				}
				if ok && src.Dec != nil && src.Dec.Scope != cons.Scope {
					c.probe("deco_from_ancestor_scope")
				}
				if ok && src.Dec != nil && cons.Self != nil {
					c.probe("deco_nested")
				}
				if ok && src.Ctor != nil {
					if src.Ctor.Home != cons.Scope {
						c.probe("arg_cross_scope")
					}
					if len(m.AllProv(cons.Scope, p.Key)) > 1 {
						c.probe("nearest_shadowed")
					}
					if src.Ctor.Origin != src.Ctor.Home && !m.IsAnc(src.Ctor.Origin, cons.Scope) {
						c.probe("export_seen_from_sibling")
					}
					if IsIface(p.Key.T) {
						c.probe("as_value_delivered")
					}
				}
				// decorator input rule: what the decorator itself received
			}
			if class != "" {
				c.viol(i, class, detail, props...)
			}
		}
	}
}

func (c *Checked) checkGroupArg(i int, who string, cons Consumer, p LeafParam, a ArgObs,
	builtAtCall, builtNow map[int]bool, minted func(int) [][]int64, f *Func, ai int, lp []LeafParam) {
	m := c.M
	got := canonMembers(p.Key, a.Serials)
	ds := m.DecsOnPath(cons.Scope, p.Key, cons.Self)
	for _, d := range ds {
		if m.MayBeOnStack(d, cons.Fn) {
			c.orderDep(f.ID)
		}
	}
	if len(ds) > 0 {
		c.probe("group_decorated")
		var first []int64
		definitive := false
		for di, d := range ds {
			var want []int64
			for _, li := range leafFor(d.LR, p.Key) {
				mm := minted(d.Fn)
				if li < len(mm) {
					want = append(want, mm[li]...)
				}
			}
			want = canonMembers(p.Key, want)
			if di == 0 {
				first = want
			}
			if eqI64(got, want) {
				return
			}
			if !m.MayBeOnStack(d, cons.Fn) {
				definitive = true
				break
			}
		}
		if definitive {
			c.viol(i, "wrong-decorated-group", fmt.Sprintf("%s: expected the slice returned by decorator f%d %v, received %s", who, ds[0].Fn, first, c.describeSerials(got)), "C12", "C01")
			return
		}
		c.probe("group_decorator_maybe_on_stack")
		// every decorator on the path may be on the stack: the undecorated
		// members are acceptable too (checked below)
	}
	feeders := m.Feeders(cons.Scope, p.Key)
	members := func(n *MCtor) []int64 {
		var out []int64
		mm := minted(n.Fn)
		for _, li := range leafFor(n.LR, p.Key) {
			if li < len(mm) {
				out = append(out, mm[li]...)
			}
		}
		return out
	}
	if !p.Soft {
		var want []int64
		for _, n := range feeders {
			want = append(want, members(n)...)
		}
		gk := groupReq{cons.Scope, p.Key}
		if prev, ok := c.groupSeen[gk]; ok && len(feeders) > prev {
			c.probe("feeder_added_between")
		}
		c.groupSeen[gk] = len(feeders)
		want = canonMembers(p.Key, want)
		if len(feeders) >= 3 {
			c.probe("group_feeders>=3")
		}
		if len(want) == 0 {
			c.probe("group_empty")
		}
		for _, n := range feeders {
			if !builtNow[n.Fn] {
				c.viol(i, "feeder-not-executed", fmt.Sprintf("%s: visible feeder f%d has not been executed successfully when the consumer runs", who, n.Fn), asKeyProps(p.Key, "C10", "C03", "C07")...)
			}
		}
		if !eqI64(got, want) {
			c.viol(i, "wrong-group-content", fmt.Sprintf("%s: expected members %v of %d visible feeders, received %s", who, want, len(feeders), c.describeSerials(got)), asKeyProps(p.Key, "C10", "C01")...)
		}
		return
	}
	if IsSliceT(p.Key.T) {
		return // slice-typed members are only generated for hard consumers
	}
	// soft: upper = built now; lower = built before the Invoke began, plus
	// feeders required by the other fields of the same parameter object.
	upper := map[int64]bool{}
	var lower []int64
	for _, n := range feeders {
		if builtNow[n.Fn] {
			for _, s := range members(n) {
				upper[s] = true
			}
		}
		if builtAtCall[n.Fn] {
			lower = append(lower, members(n)...)
		}
	}
	if p.Obj >= 0 {
		var others []LeafParam
		// the other fields of the same parameter object, including the fields
		// of objects nested in it (a nested object is a field of this object)
		for oi, q := range lp {
			if oi == ai || q.Soft {
				continue
			}
			for _, o := range q.ObjPath {
				if o == p.Obj {
					others = append(others, q)
					break
				}
			}
		}
		cl := m.MustClosure(cons, others)
		if !cl.Decorated {
			for _, n := range feeders {
				if cl.Fns[n.Fn] && !builtAtCall[n.Fn] {
					lower = append(lower, members(n)...)
					c.probe("soft_sibling_field_feeder")
				}
			}
		}
	}
	for _, s := range got {
		if !upper[s] {
			c.viol(i, "soft-group-foreign-member", fmt.Sprintf("%s: soft group contains %s which no executed visible feeder produced", who, c.describeSerials([]int64{s})), "C11", "C01")
		}
	}
	gotSet := map[int64]bool{}
	for _, s := range got {
		if gotSet[s] {
			c.viol(i, "soft-group-duplicate", fmt.Sprintf("%s: member %d twice", who, s), "C11", "C10")
		}
		gotSet[s] = true
	}
	for _, s := range lower {
		if !gotSet[s] {
			c.viol(i, "soft-group-missing-member", fmt.Sprintf("%s: soft group lacks %s of an already executed feeder", who, c.describeSerials([]int64{s})), "C11")
		}
	}
	if len(got) > 0 {
		c.probe("soft_nonempty")
	}
}

// canonMembers puts the serials of a group argument into a canonical order:
// sorted, or -- for members that are themselves slices -- the members sorted
// as lists (each still introduced by SepSerial), so that two multisets of
// members compare equal exactly when they hold the same members.
func canonMembers(k Key, ss []int64) []int64 {
	out := append([]int64(nil), ss...)
	if !IsSliceT(k.T) {
		sort.Slice(out, func(x, y int) bool { return out[x] < out[y] })
		return out
	}
	var lists [][]int64
	for _, s := range out {
		if s == SepSerial {
			lists = append(lists, nil)
			continue
		}
		if len(lists) == 0 {
			lists = append(lists, nil)
		}
		lists[len(lists)-1] = append(lists[len(lists)-1], s)
	}
	sort.Slice(lists, func(x, y int) bool {
		a, b := lists[x], lists[y]
		for i := 0; i < len(a) && i < len(b); i++ {
			if a[i] != b[i] {
				return a[i] < b[i]
			}
		}
		return len(a) < len(b)
	})
	out = out[:0]
	for _, l := range lists {
		out = append(out, SepSerial)
		out = append(out, l...)
	}
	return out
}

func (c *Checked) describeSerials(ss []int64) string {
	var parts []string
	for _, s := range ss {
		if s == SepSerial {
			parts = append(parts, "|")
			continue
		}
		if s < 0 || int(s) >= len(c.R.W.Tokens) {
			parts = append(parts, fmt.Sprintf("#%d(?)", s))
			continue
		}
		t := c.R.W.Tokens[s]
		parts = append(parts, fmt.Sprintf("#%d(f%d.%d exec%d)", s, t.Fn, t.Leaf, t.Exec))
	}
	return "[" + strings.Join(parts, " ") + "]"
}

func eqI64(a, b []int64) bool {
	if len(a) != len(b) {
		return false
	}
	for i := range a {
		if a[i] != b[i] {
			return false
		}
	}
	return true
}

// ---------------------------------------------------------------- Invoke vs model (C03 closure, C04 verdicts, C05 runtime cycles)

func (c *Checked) checkInvokeModel(i int, op Op, res *OpResult, evs []Event) {
	m := c.M
	inv := &c.H.Funcs[op.Fn]
	cons := Consumer{Scope: op.Scope, Fn: -1}
	lp := inv.LeafParams()
	cl := c.curClosure
	executed := map[int]bool{}
	anyFail := false
	invEntered := false
	for _, e := range evs {
		if e.Kind == EvEnter {
			if e.Fn == inv.ID {
				invEntered = true
				continue
			}
			executed[e.Fn] = true
			if !cl.Fns[e.Fn] {
				c.viol(i, "executed-outside-closure", fmt.Sprintf("%s f%d ran but is not in the dependency closure of Invoke f%d from s%d", c.H.Funcs[e.Fn].Role, e.Fn, inv.ID, op.Scope), "C03", "C11")
			}
			// C04: no constructor runs whose own direct dependencies are unavailable
			if n, ok := m.ByFn[e.Fn]; ok && m.MissingDirect(Consumer{Scope: n.Origin, Fn: n.Fn}, n.LP) {
				c.viol(i, "ran-with-missing-direct-dependency", fmt.Sprintf("ctor f%d executed although a required direct dependency has no provider", e.Fn), "C04")
			}
		}
		if (e.Kind == EvExit && e.Out != OutOK) || (e.Kind == EvCallback && e.CB.Panicked) {
			anyFail = true
		}
	}
	if len(cl.Fns) >= 2 {
		c.probe("closure>=2")
	}
	{
		by, scopes := 0, map[int]bool{}
		for fn, n := range m.ByFn {
			if !n.Built && !cl.Fns[fn] {
				by++
				scopes[n.Home] = true
			}
		}
		for fn, d := range m.DByFn {
			if !d.Built && !cl.Fns[fn] {
				by++
				scopes[d.Scope] = true
			}
		}
		if by >= 2 && len(scopes) >= 2 {
			c.probe("bystanders>=2")
		}
	}
	if len(executed) >= 3 && res.Verdict == VOK {
		c.probe("executed>=3_ok")
	}
	// lower bound on success
	if res.Verdict == VOK && !cl.Loop {
		mc := m.MustClosure(cons, lp)
		for fn := range mc.Fns {
			if !executed[fn] {
				c.viol(i, "closure-member-not-built", fmt.Sprintf("Invoke f%d succeeded but %s f%d of its closure did not run", inv.ID, c.H.Funcs[fn].Role, fn), "C03")
			}
		}
		if len(mc.Fns) >= 2 {
			c.probe("must_closure>=2")
		}
	}
	// C04 / C05 verdicts
	av := m.newAvail()
	v := av.params(cons, lp)
	cyc := m.RuntimeCycle(cons, lp)
	anyCycle := m.AnyCycle()
	if len(cyc) > 0 {
		c.probe("runtime_cycle")
		for _, a := range cyc {
			for _, b := range cyc {
				if !m.IsAnc(a.Origin, b.Origin) && !m.IsAnc(b.Origin, a.Origin) {
					c.probe("cycle_cross_sibling")
				}
			}
		}
		for _, n := range cyc {
			if executed[n.Fn] {
				c.viol(i, "cycle-member-executed", fmt.Sprintf("f%d lies on a dependency cycle the Invoke traverses, yet it ran", n.Fn), "C05")
			}
		}
		if res.Verdict == VOK {
			c.viol(i, "cyclic-invoke-succeeded", fmt.Sprintf("Invoke f%d traverses a cycle through f%d but succeeded", inv.ID, cyc[0].Fn), "C05")
		} else if !anyFail && v != no && !m.MissingShallow(cons, lp) && res.Verdict != VCycle && !res.Facts.Escaped {
			c.viol(i, "cycle-not-classified", fmt.Sprintf("Invoke f%d traverses a cycle through f%d; verdict %s (%s)", inv.ID, cyc[0].Fn, res.Verdict, res.Facts.Text), "C05", "C13")
		}
		return
	}
	if res.Verdict == VCycle && !anyCycle {
		c.viol(i, "spurious-cycle", fmt.Sprintf("Invoke f%d from s%d reported a cycle but the graph is acyclic under every reading: %s", inv.ID, op.Scope, res.Facts.Text), c.afterFault("C05", "C16", "C13", "C04")...)
	}
	if anyCycle || av.Loops {
		c.probe("invoke_model_skipped_cycle")
		return
	}
	switch v {
	case no:
		c.probe("invoke_missing_dependency")
		if !m.MissingShallow(cons, lp) {
			c.probe("missing_deep")
		}
		if res.Verdict == VOK {
			c.viol(i, "missing-dependency-ignored", fmt.Sprintf("Invoke f%d from s%d succeeded although a required dependency is unavailable", inv.ID, op.Scope), "C04")
		}
		if invEntered {
			c.viol(i, "invoked-with-missing-dependency", fmt.Sprintf("f%d was called although a required dependency is unavailable", inv.ID), "C04")
		}
		if !anyFail && !res.Facts.Escaped && res.Verdict != VOK && !res.Facts.RootDigErr {
			c.viol(i, "missing-not-dig-error", fmt.Sprintf("verdict %s: %s", res.Verdict, res.Facts.Text), "C04", "C13")
		}
	case yes:
		if !anyFail {
			c.probe("invoke_available")
			if res.Verdict != VOK {
				props := []string{"C04", "C08", "C16"}
				for _, p := range lp {
					// a value group that should have been delivered was not
					if p.Key.IsGroup() && !p.Soft {
						props = append(props, "C10")
					} else if p.Key.IsGroup() {
						props = append(props, "C11")
					}
				}
				c.viol(i, "available-but-failed", fmt.Sprintf("Invoke f%d from s%d: every required dependency is available, no cycle, no user failure, yet verdict %s: %s", inv.ID, op.Scope, res.Verdict, res.Facts.Text), c.afterFault(props...)...)
			}
		}
	}
}

// ---------------------------------------------------------------- introspection (C18)

func expInput(p LeafParam) string {
	t := TypeName(p.Key.T)
	var toks []string
	if p.Key.IsGroup() {
		if p.NamedSlice && !IsIface(p.Key.T) && !isVal(p.Key.T) && !isAlt(p.Key.T) {
			t = fmt.Sprintf("sim.KS%d", p.Key.T)
			if p.NamedAlt {
				t = fmt.Sprintf("sim.KT%d", p.Key.T)
			}
		} else {
			t = "[]" + t
		}
	}
	if p.Opt {
		toks = append(toks, "optional")
	}
	if p.Key.Name != "" {
		toks = append(toks, fmt.Sprintf("name = %q", p.Key.Name))
	}
	if p.Key.Group != "" {
		toks = append(toks, fmt.Sprintf("group = %q", p.Key.Group))
	}
	if len(toks) == 0 {
		return t
	}
	return fmt.Sprintf("%v[%v]", t, strings.Join(toks, ", "))
}

func expOutputs(f *Func) []string {
	var out []string
	for _, r := range f.LeafResults() {
		for _, k := range r.Keys {
			t := TypeName(k.T)
			if k.IsGroup() && f.Role == RoleDec {
				t = "[]" + t
				if r.NamedRes > 0 && k.T < NumK && !isVal(k.T) && !isAlt(k.T) {
					t = fmt.Sprintf("sim.K%s%d", map[int]string{1: "S", 2: "T"}[r.NamedRes], k.T)
				}
			}
			var toks []string
			if k.Name != "" {
				toks = append(toks, fmt.Sprintf("name = %q", k.Name))
			}
			if k.Group != "" {
				toks = append(toks, fmt.Sprintf("group = %q", k.Group))
			}
			if len(toks) == 0 {
				out = append(out, t)
			} else {
				out = append(out, fmt.Sprintf("%v[%v]", t, strings.Join(toks, ", ")))
			}
		}
	}
	return out
}

// catIDs remembers, across all histories of this process, the ID dig assigned
// to each catalogue function: equal function => equal ID, distinct => distinct.
var (
	catIDs   = map[int]int{}
	catIDRev = map[int]int{}
)

// eqStr compares two lists of Input / Output descriptions entry by entry. An
// entry is "<type>" or "<type>[attr, attr...]": the type and the *set* of
// attributes are compared, so that a different spelling order of the
// attributes (which no statement fixes) is not an alarm.
// The ID rule of C18 is the one oracle with memory across histories. While a
// failing history is minimised, every candidate must be judged against that
// memory as it was *before* the failing history started, or the minimiser
// would drop the very operation that created the collision.
type catIDState struct{ ids, rev map[int]int }

func snapshotCatIDs() catIDState {
	s := catIDState{make(map[int]int, len(catIDs)), make(map[int]int, len(catIDRev))}
	for k, v := range catIDs {
		s.ids[k] = v
	}
	for k, v := range catIDRev {
		s.rev[k] = v
	}
	return s
}

func restoreCatIDs(s catIDState) {
	catIDs, catIDRev = make(map[int]int, len(s.ids)), make(map[int]int, len(s.rev))
	for k, v := range s.ids {
		catIDs[k] = v
	}
	for k, v := range s.rev {
		catIDRev[k] = v
	}
}

func eqStr(a, b []string) bool {
	if len(a) != len(b) {
		return false
	}
	for i := range a {
		if a[i] != b[i] && normEntry(a[i]) != normEntry(b[i]) {
			return false
		}
	}
	return true
}

func normEntry(s string) string {
	open := strings.LastIndex(s, "[")
	if open <= 0 || !strings.HasSuffix(s, "]") || strings.HasPrefix(s[open:], "[]") {
		return s
	}
	attrs := strings.Split(s[open+1:len(s)-1], ",")
	for i := range attrs {
		attrs[i] = strings.Join(strings.Fields(attrs[i]), "")
	}
	sort.Strings(attrs)
	return s[:open] + "[" + strings.Join(attrs, ",") + "]"
}

func (c *Checked) checkInfo(i int, op Op, res *OpResult, evs []Event) {
	if res.Info == nil || (op.Kind != OpProvide && op.Kind != OpDecorate && op.Kind != OpInvoke) {
		return
	}
	f := &c.H.Funcs[op.Fn]
	info := res.Info
	var wantIn []string
	for _, p := range f.LeafParams() {
		wantIn = append(wantIn, expInput(p))
	}
	if op.Kind == OpInvoke {
		entered := false
		for _, e := range evs {
			if e.Kind == EvEnter && e.Fn == f.ID {
				entered = true
			}
		}
		if !entered && !c.H.Cfg.DryRun {
			return
		}
		if res.Verdict != VOK && c.H.Cfg.DryRun {
			return
		}
		c.probe("info_invoke")
		if !eqStr(info.Inputs, wantIn) {
			c.viol(i, "info-inputs", fmt.Sprintf("InvokeInfo of %s: inputs %q, declared %q", f, info.Inputs, wantIn), "C18")
		}
		return
	}
	if res.Verdict != VOK {
		c.probe("info_rejected")
		if info.Touched {
			c.viol(i, "info-touched-on-reject", fmt.Sprintf("%s of %s was rejected (%s) but its Info struct was written: id=%d inputs=%q outputs=%q", op.Kind, f, res.Verdict, info.ID, info.Inputs, info.Outputs), "C18", "C06")
		}
		return
	}
	c.probe("info_accepted")
	if len(wantIn) >= 3 {
		c.probe("info_inputs>=3")
	}
	if !eqStr(info.Inputs, wantIn) {
		c.viol(i, "info-inputs", fmt.Sprintf("%s of %s: Info inputs %q, declared %q", op.Kind, f, info.Inputs, wantIn), "C18")
	}
	wantOut := expOutputs(f)
	if !eqStr(info.Outputs, wantOut) {
		c.viol(i, "info-outputs", fmt.Sprintf("%s of %s: Info outputs %q, declared %q", op.Kind, f, info.Outputs, wantOut), "C18")
	}
	if f.Cat >= 0 {
		c.probe("info_catalog_id")
		if id, ok := catIDs[f.Cat]; ok && id != info.ID {
			c.viol(i, "info-id-unstable", fmt.Sprintf("catalogue function %d got ID %d now and %d earlier", f.Cat, info.ID, id), "C18")
		}
		if other, ok := catIDRev[info.ID]; ok && other != f.Cat {
			c.viol(i, "info-id-collision", fmt.Sprintf("catalogue functions %d and %d share ID %d", f.Cat, other, info.ID), "C18")
		}
		catIDs[f.Cat] = info.ID
		catIDRev[info.ID] = f.Cat
	}
}

// checkOwnResultFromCallback: a function's callback asked the function's own
// scope for the function's own first result right after a *successful*
// execution. A decorator's key then resolves to what that decorator just
// returned (it is the nearest enclosing decorator for its own scope, C12); a
// constructor's key to what it just returned, unless a decorator stands on the
// path (then the decorator's output, which is checked where the decorator runs).
func (c *Checked) checkOwnResultFromCallback(i int, e *Event, before []Event) {
	f := &c.H.Funcs[e.Fn]
	if f.ReKey != nil || !c.modelOK() {
		return
	}
	var exit *Event
	for b := len(before) - 1; b >= 0; b-- {
		if before[b].Kind == EvExit && before[b].Fn == e.Fn {
			exit = &before[b]
			break
		}
	}
	if exit == nil || exit.Out != OutOK || len(exit.Minted) == 0 {
		return
	}
	lr := f.LeafResults()
	if len(lr) == 0 || len(lr[0].Keys) == 0 {
		return
	}
	k := lr[0].Keys[0]
	if f.Role == RoleCtor {
		n := c.M.ByFn[e.Fn]
		if n == nil || len(c.M.DecsOnPath(n.Home, k, nil)) > 0 {
			return
		}
	}
	c.probe("own_result_from_callback")
	want := canonMembers(k, exit.Minted[0])
	if k.IsGroup() {
		return // a group also holds the members of other feeders
	}
	got := e.Args[0].Serials
	if len(got) != 1 || len(want) != 1 || got[0] != want[0] {
		c.viol(i, "own-result-from-callback", fmt.Sprintf("%s f%d returned %v for %s; a request for that key issued from its callback received %s", f.Role, e.Fn, want, k, c.describeSerials(got)), "C12", "C02", "C01")
	}
}

// asKeyProps: a group of an interface type exists through As registrations
// only; getting its content wrong is also a key-identity matter (C09).
func asKeyProps(k Key, props ...string) []string {
	if IsIface(k.T) {
		return append(props, "C09")
	}
	return props
}
