package sim

import (
	"bytes"
	"errors"
	"fmt"
	"reflect"
	"runtime/debug"
	"strings"

	"go.uber.org/dig"
)

// Verdict classes are derived from public error facts only, never from text.
type Verdict int

const (
	VOK Verdict = iota
	VUserError
	VUserPanic
	VCycle
	VMissing
	VDigOther
	VForeignPanic
	VForeignError
)

func (v Verdict) String() string {
	return [...]string{"ok", "user-error", "user-panic", "dig-cycle", "dig-missing", "dig-other", "foreign-panic", "foreign-error"}[v]
}

// ErrFacts are the observable facts about what an API call returned.
type ErrFacts struct {
	Nil         bool
	Text        string // display only
	RootInj     [2]int // RootCause(err) is the injected error of (fn, exec)
	IsInj       [2]int // errors.Is(err, injected) for the same value
	Same        bool   // err == that injected value (no wrapping)
	RootDigErr  bool   // errors.As(RootCause(err), *dig.Error)
	AnyDigErr   bool   // errors.As(err, *dig.Error)
	RootPanic   bool   // RootCause(err) is a dig.PanicError
	PanicInj    [2]int
	Cycle       bool
	CanVis      bool
	Escaped     bool // a panic left the API call
	EscInj      [2]int
	EscText     string
	EscStack    string
	RootTypeStr string
}

type OpResult struct {
	Op      int
	Verdict Verdict
	Facts   ErrFacts
	EvFrom  int
	EvTo    int
	Dot     string
	Str     string
	Info    *InfoObs
	SkipMal bool // malformed op could not be built (harness-side)
}

// InfoObs is what Fill*Info reported.
type InfoObs struct {
	Touched bool
	ID      int
	Inputs  []string
	Outputs []string
}

type Run struct {
	H   *History
	W   *World
	Res []OpResult
	err []error // live errors per op (for VisualizeError)
}

func noInj() [2]int { return [2]int{-1, -1} }

func (w *World) facts(err error, pan interface{}, panicked bool, stack string) ErrFacts {
	f := ErrFacts{Nil: err == nil, RootInj: noInj(), IsInj: noInj(), PanicInj: noInj(), EscInj: noInj()}
	if panicked {
		f.Escaped = true
		f.EscText = fmt.Sprint(pan)
		f.EscStack = stack
		if fn, ex, ok := injectedPanic(pan); ok {
			f.EscInj = [2]int{fn, ex}
		}
		return f
	}
	if err == nil {
		return f
	}
	f.Text = err.Error()
	rc := dig.RootCause(err)
	f.RootTypeStr = fmt.Sprintf("%T", rc)
	if ie, ok := rc.(*InjErr); ok {
		f.RootInj = [2]int{ie.Fn, ie.Exec}
		if errors.Is(err, ie) {
			f.IsInj = f.RootInj
		}
		f.Same = err == error(ie)
	} else {
		var ie *InjErr
		if errors.As(err, &ie) {
			f.IsInj = [2]int{ie.Fn, ie.Exec}
		}
	}
	var de dig.Error
	f.RootDigErr = rc != nil && errors.As(rc, &de)
	var de2 dig.Error
	f.AnyDigErr = errors.As(err, &de2)
	if pe, ok := rc.(dig.PanicError); ok {
		f.RootPanic = true
		if fn, ex, ok := injectedPanic(pe.Panic); ok {
			f.PanicInj = [2]int{fn, ex}
		}
	}
	f.Cycle = dig.IsCycleDetected(err)
	f.CanVis = dig.CanVisualizeError(err)
	return f
}

func verdictOf(f ErrFacts) Verdict {
	switch {
	case f.Escaped && f.EscInj[0] >= 0:
		return VUserPanic
	case f.Escaped:
		return VForeignPanic
	case f.Nil:
		return VOK
	case f.RootInj[0] >= 0:
		return VUserError
	case f.RootPanic && f.PanicInj[0] >= 0:
		return VUserPanic
	case f.RootPanic:
		return VForeignPanic
	case f.Cycle:
		return VCycle
	case f.RootDigErr && f.CanVis:
		return VMissing
	case f.RootDigErr:
		return VDigOther
	}
	return VForeignError
}

func (w *World) provideOpts(f *Func, info *dig.ProvideInfo) []dig.ProvideOption {
	var o []dig.ProvideOption
	if f.OptName != "" {
		if f.OptNoise {
			o = append(o, dig.Name("overridden"))
		}
		o = append(o, dig.Name(f.OptName))
	}
	if f.OptGroup != "" {
		g := f.OptGroup
		if f.OptFlatten {
			g += ",flatten"
		}
		if f.OptNoise {
			o = append(o, dig.Group("overridden"))
		}
		o = append(o, dig.Group(g))
	}
	if len(f.OptAs) > 0 {
		var as []interface{}
		for _, j := range f.OptAs {
			as = append(as, iPtrs[j])
		}
		o = append(o, dig.As(as...))
	}
	if f.OptNoise {
		o = append(o, dig.Export(!f.Export), dig.Export(f.Export))
	} else if f.Export {
		o = append(o, dig.Export(true))
	}
	if f.Callback {
		o = append(o, dig.WithProviderCallback(w.callback(f.ID)))
	}
	if info != nil {
		o = append(o, dig.FillProvideInfo(info))
	}
	if t := locTarget(f); t >= 0 {
		o = append(o, dig.LocationForPC(reflect.ValueOf(catFns[t]).Pointer()))
	}
	return o
}

// locTarget is the declared function whose location a constructor registered
// with LocationForPC claims (-1: option not used).
func locTarget(f *Func) int {
	if !f.LocPC || len(catFns) < 2 {
		return -1
	}
	if f.Cat >= 0 {
		return (f.Cat + 1) % len(catFns)
	}
	return (f.ID*7 + 3) % len(catFns)
}

func inputsStr(in []*dig.Input) []string {
	var s []string
	for _, i := range in {
		s = append(s, i.String())
	}
	return s
}

func outputsStr(out []*dig.Output) []string {
	var s []string
	for _, o := range out {
		s = append(s, o.String())
	}
	return s
}

const infoSentinel = -777

// guard runs fn, converting an escaping panic into facts.
func (w *World) guard(fn func() error) (err error, facts ErrFacts) {
	var pan interface{}
	panicked := true
	stack := ""
	func() {
		defer func() {
			if panicked {
				pan = recover()
				stack = string(debug.Stack())
			}
		}()
		err = fn()
		panicked = false
	}()
	if panicked {
		// the world's open stack is unwound by the panic
		w.Open = w.Open[:0]
	}
	return err, w.facts(err, pan, panicked, stack)
}

// Journal, if set, is called before every API call (process-crash attribution).
var Journal func(op int)

// Exec executes op i of the history against the real container.
func (r *Run) Exec(i int) *OpResult {
	w := r.W
	op := r.H.Ops[i]
	w.CurOp = i
	if Journal != nil {
		Journal(i)
	}
	res := OpResult{Op: i, EvFrom: len(w.Log)}
	w.emit(Event{Kind: EvAPICall, Fn: -1})
	var err error
	var facts ErrFacts
	if op.Scope >= len(w.Scopes) {
		panic(fmt.Sprintf("harness: op %d targets unknown scope %d", i, op.Scope))
	}
	sc := w.Scopes[op.Scope]
	switch op.Kind {
	case OpScope:
		err, facts = w.guard(func() error {
			var child *dig.Scope
			if op.Scope == 0 {
				child = w.C.Scope(fmt.Sprintf("s%d", len(w.Scopes)))
			} else {
				child = sc.Scope(fmt.Sprintf("s%d", len(w.Scopes)))
			}
			dig.VerifSeedRand(child, mix64(r.H.Cfg.ShuffleSeed, int64(len(w.Scopes))))
			w.Scopes = append(w.Scopes, child)
			return nil
		})
		if facts.Escaped {
			// keep scope indices aligned
			w.Scopes = append(w.Scopes, sc)
		}
	case OpProvide:
		f := &r.H.Funcs[op.Fn]
		var info *dig.ProvideInfo
		var before InfoObs
		reused := false
		if f.Info {
			info = &dig.ProvideInfo{ID: infoSentinel}
			if f.ReuseInfo && w.lastPInfo != nil {
				// the struct an earlier accepted Provide filled
				info, reused = w.lastPInfo, true
				before = InfoObs{ID: int(info.ID), Inputs: inputsStr(info.Inputs), Outputs: outputsStr(info.Outputs)}
			}
		}
		fv := w.FnValue(op.Fn)
		opts := w.provideOpts(f, info)
		err, facts = w.guard(func() error {
			if op.Scope == 0 {
				return w.C.Provide(fv, opts...)
			}
			return sc.Provide(fv, opts...)
		})
		if info != nil {
			res.Info = &InfoObs{Touched: info.ID != infoSentinel || info.Inputs != nil || info.Outputs != nil,
				ID: int(info.ID), Inputs: inputsStr(info.Inputs), Outputs: outputsStr(info.Outputs)}
			if reused {
				res.Info.Touched = res.Info.ID != before.ID || !eqStrExact(res.Info.Inputs, before.Inputs) || !eqStrExact(res.Info.Outputs, before.Outputs)
			}
			if err == nil && !facts.Escaped {
				w.lastPInfo = info
			}
		}
		if err == nil && !facts.Escaped {
			if w.HomeOf == nil {
				w.HomeOf = map[int]int{}
			}
			w.HomeOf[f.ID] = op.Scope
			if f.Export {
				w.HomeOf[f.ID] = 0
			}
		}
	case OpDecorate:
		f := &r.H.Funcs[op.Fn]
		var info *dig.DecorateInfo
		var opts []dig.DecorateOption
		if f.Info {
			info = &dig.DecorateInfo{ID: infoSentinel}
			opts = append(opts, dig.FillDecorateInfo(info))
		}
		if f.Callback {
			opts = append(opts, dig.WithDecoratorCallback(w.callback(f.ID)))
		}
		fv := w.FnValue(op.Fn)
		err, facts = w.guard(func() error {
			if op.Scope == 0 {
				return w.C.Decorate(fv, opts...)
			}
			return sc.Decorate(fv, opts...)
		})
		if info != nil {
			res.Info = &InfoObs{Touched: info.ID != infoSentinel || info.Inputs != nil || info.Outputs != nil,
				ID: int(info.ID), Inputs: inputsStr(info.Inputs), Outputs: outputsStr(info.Outputs)}
		}
		if err == nil && !facts.Escaped {
			if w.HomeOf == nil {
				w.HomeOf = map[int]int{}
			}
			w.HomeOf[f.ID] = op.Scope
		}
	case OpInvoke:
		f := &r.H.Funcs[op.Fn]
		var info *dig.InvokeInfo
		var opts []dig.InvokeOption
		if f.Info {
			info = &dig.InvokeInfo{}
			opts = append(opts, dig.FillInvokeInfo(info))
		}
		fv := w.FnValue(op.Fn)
		err, facts = w.guard(func() error {
			if op.Scope == 0 {
				return w.C.Invoke(fv, opts...)
			}
			return sc.Invoke(fv, opts...)
		})
		if info != nil {
			res.Info = &InfoObs{Touched: info.Inputs != nil, Inputs: inputsStr(info.Inputs)}
		}
	case OpVisualize:
		var buf bytes.Buffer
		var opts []dig.VisualizeOption
		if op.ErrFrom > 0 && op.ErrFrom-1 < len(r.err) && r.err[op.ErrFrom-1] != nil {
			opts = append(opts, dig.VisualizeError(r.err[op.ErrFrom-1]))
		}
		err, facts = w.guard(func() error { return dig.Visualize(w.C, &buf, opts...) })
		res.Dot = buf.String()
	case OpString:
		var sb strings.Builder
		err, facts = w.guard(func() error {
			sb.WriteString(w.C.String())
			for _, s := range w.Scopes[1:] {
				sb.WriteString(s.String())
			}
			return nil
		})
		res.Str = sb.String()
	case OpMalformed:
		var skip bool
		err, facts, skip = w.execMalformed(r, op)
		res.SkipMal = skip
	}
	w.emit(Event{Kind: EvAPIRet, Fn: -1})
	res.EvTo = len(w.Log)
	res.Facts = facts
	res.Verdict = verdictOf(facts)
	r.err = append(r.err, err)
	r.Res = append(r.Res, res)
	return &r.Res[len(r.Res)-1]
}

func NewRun(h *History) *Run { return &Run{H: h, W: NewWorld(h)} }

// Execute runs the whole history.
func Execute(h *History) *Run {
	r := NewRun(h)
	for i := range h.Ops {
		r.Exec(i)
	}
	return r
}

// Events returns the events logged during op i.
func (r *Run) Events(i int) []Event { return r.W.Log[r.Res[i].EvFrom:r.Res[i].EvTo] }

func eqStrExact(a, b []string) bool {
	if len(a) != len(b) {
		return false
	}
	for i := range a {
		if a[i] != b[i] {
			return false
		}
	}
	return true
}
