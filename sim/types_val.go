// Struct-valued payload types: the same universe positions as *K<i>, realised as a
// non-pointer struct V<i> when bit i of Config.ValMask is set (value kinds flow
// through reflect paths that pointers never exercise: zero-ness without IsNil,
// copying, comparison by value).
package sim

import "reflect"

type V0 struct {
	S    int64
	Live bool
}

func (v V0) Ser() int64 { return v.S }
func (v V0) MI0()       {}
func (v V0) MI1()       {}
func (v V0) MI2()       {}

type V1 struct {
	S    int64
	Live bool
}

func (v V1) Ser() int64 { return v.S }
func (v V1) MI1()       {}
func (v V1) MI2()       {}
func (v V1) MI3()       {}

type V2 struct {
	S    int64
	Live bool
}

func (v V2) Ser() int64 { return v.S }
func (v V2) MI2()       {}
func (v V2) MI3()       {}
func (v V2) MI0()       {}

type V3 struct {
	S    int64
	Live bool
}

func (v V3) Ser() int64 { return v.S }
func (v V3) MI3()       {}
func (v V3) MI0()       {}
func (v V3) MI1()       {}

type V4 struct {
	S    int64
	Live bool
}

func (v V4) Ser() int64 { return v.S }
func (v V4) MI0()       {}
func (v V4) MI1()       {}
func (v V4) MI2()       {}

type V5 struct {
	S    int64
	Live bool
}

func (v V5) Ser() int64 { return v.S }
func (v V5) MI1()       {}
func (v V5) MI2()       {}
func (v V5) MI3()       {}

type V6 struct {
	S    int64
	Live bool
}

func (v V6) Ser() int64 { return v.S }
func (v V6) MI2()       {}
func (v V6) MI3()       {}
func (v V6) MI0()       {}

type V7 struct {
	S    int64
	Live bool
}

func (v V7) Ser() int64 { return v.S }
func (v V7) MI3()       {}
func (v V7) MI0()       {}
func (v V7) MI1()       {}

type V8 struct {
	S    int64
	Live bool
}

func (v V8) Ser() int64 { return v.S }
func (v V8) MI0()       {}
func (v V8) MI1()       {}
func (v V8) MI2()       {}

type V9 struct {
	S    int64
	Live bool
}

func (v V9) Ser() int64 { return v.S }
func (v V9) MI1()       {}
func (v V9) MI2()       {}
func (v V9) MI3()       {}

type V10 struct {
	S    int64
	Live bool
}

func (v V10) Ser() int64 { return v.S }
func (v V10) MI2()       {}
func (v V10) MI3()       {}
func (v V10) MI0()       {}

type V11 struct {
	S    int64
	Live bool
}

func (v V11) Ser() int64 { return v.S }
func (v V11) MI3()       {}
func (v V11) MI0()       {}
func (v V11) MI1()       {}

type V12 struct {
	S    int64
	Live bool
}

func (v V12) Ser() int64 { return v.S }
func (v V12) MI0()       {}
func (v V12) MI1()       {}
func (v V12) MI2()       {}

type V13 struct {
	S    int64
	Live bool
}

func (v V13) Ser() int64 { return v.S }
func (v V13) MI1()       {}
func (v V13) MI2()       {}
func (v V13) MI3()       {}

type V14 struct {
	S    int64
	Live bool
}

func (v V14) Ser() int64 { return v.S }
func (v V14) MI2()       {}
func (v V14) MI3()       {}
func (v V14) MI0()       {}

type V15 struct {
	S    int64
	Live bool
}

func (v V15) Ser() int64 { return v.S }
func (v V15) MI3()       {}
func (v V15) MI0()       {}
func (v V15) MI1()       {}

var vTypes = []reflect.Type{reflect.TypeOf(V0{}), reflect.TypeOf(V1{}), reflect.TypeOf(V2{}), reflect.TypeOf(V3{}), reflect.TypeOf(V4{}), reflect.TypeOf(V5{}), reflect.TypeOf(V6{}), reflect.TypeOf(V7{}), reflect.TypeOf(V8{}), reflect.TypeOf(V9{}), reflect.TypeOf(V10{}), reflect.TypeOf(V11{}), reflect.TypeOf(V12{}), reflect.TypeOf(V13{}), reflect.TypeOf(V14{}), reflect.TypeOf(V15{})}
var vNew = []func(int64) interface{}{func(s int64) interface{} { return V0{S: s, Live: true} }, func(s int64) interface{} { return V1{S: s, Live: true} }, func(s int64) interface{} { return V2{S: s, Live: true} }, func(s int64) interface{} { return V3{S: s, Live: true} }, func(s int64) interface{} { return V4{S: s, Live: true} }, func(s int64) interface{} { return V5{S: s, Live: true} }, func(s int64) interface{} { return V6{S: s, Live: true} }, func(s int64) interface{} { return V7{S: s, Live: true} }, func(s int64) interface{} { return V8{S: s, Live: true} }, func(s int64) interface{} { return V9{S: s, Live: true} }, func(s int64) interface{} { return V10{S: s, Live: true} }, func(s int64) interface{} { return V11{S: s, Live: true} }, func(s int64) interface{} { return V12{S: s, Live: true} }, func(s int64) interface{} { return V13{S: s, Live: true} }, func(s int64) interface{} { return V14{S: s, Live: true} }, func(s int64) interface{} { return V15{S: s, Live: true} }}

// KT<i> is a second named slice type over *K<i> (no methods): a decorated group
// may be produced as one named slice type and consumed as another.
type KT0 []*K0
type KT1 []*K1
type KT2 []*K2
type KT3 []*K3
type KT4 []*K4
type KT5 []*K5
type KT6 []*K6
type KT7 []*K7
type KT8 []*K8
type KT9 []*K9
type KT10 []*K10
type KT11 []*K11
type KT12 []*K12
type KT13 []*K13
type KT14 []*K14
type KT15 []*K15

var ktTypes = []reflect.Type{reflect.TypeOf(KT0(nil)), reflect.TypeOf(KT1(nil)), reflect.TypeOf(KT2(nil)), reflect.TypeOf(KT3(nil)), reflect.TypeOf(KT4(nil)), reflect.TypeOf(KT5(nil)), reflect.TypeOf(KT6(nil)), reflect.TypeOf(KT7(nil)), reflect.TypeOf(KT8(nil)), reflect.TypeOf(KT9(nil)), reflect.TypeOf(KT10(nil)), reflect.TypeOf(KT11(nil)), reflect.TypeOf(KT12(nil)), reflect.TypeOf(KT13(nil)), reflect.TypeOf(KT14(nil)), reflect.TypeOf(KT15(nil))}
