package sim

import (
	"fmt"
	"sort"
	"strings"
)

// Twin runs: the same seeded history is executed a second time on a fresh
// container tree after a transformation; normalised observations must agree.

// OpObs is the normalised observation of one API call.
type OpObs struct {
	Verdict Verdict
	Execs   []string // one entry per user-function execution: fn, exec, outcome, argument provenance
	Wiring  []string // the same without execution indices / outcomes of failed runs (successful Invokes)
}

func (w *World) provOf(a ArgObs) string {
	if a.Zero && len(a.Serials) == 0 {
		return "zero"
	}
	var parts []string
	for _, s := range a.Serials {
		if s < 0 || int(s) >= len(w.Tokens) {
			parts = append(parts, "?")
			continue
		}
		t := w.Tokens[s]
		parts = append(parts, fmt.Sprintf("f%d.%d.%d#%d", t.Fn, t.Leaf, t.Elem, t.Exec))
	}
	sort.Strings(parts)
	return "[" + strings.Join(parts, " ") + "]"
}

// MaskSoftArgs: leave the content of soft group parameters out of the
// observations (set by C15: regrouping fields legitimately changes what a soft
// group holds, see C11).
var MaskSoftArgs bool

// Observe normalises a finished run. fnMap renames function ids (nil: identity).
func Observe(r *Run) []OpObs {
	out := make([]OpObs, len(r.Res))
	for i := range r.Res {
		o := OpObs{Verdict: r.Res[i].Verdict}
		evs := r.Events(i)
		exit := map[[2]int]ExitKind{}
		for _, e := range evs {
			if e.Kind == EvExit {
				exit[[2]int{e.Fn, e.Exec}] = e.Out
			}
		}
		for _, e := range evs {
			if e.Kind != EvEnter {
				continue
			}
			var args []string
			lp := r.H.Funcs[e.Fn].LeafParams()
			for ai, a := range e.Args {
				if MaskSoftArgs && ai < len(lp) && lp[ai].Soft {
					args = append(args, "soft")
					continue
				}
				args = append(args, r.W.provOf(a))
			}
			o.Execs = append(o.Execs, fmt.Sprintf("f%d#%d %s (%s)", e.Fn, e.Exec, exit[[2]int{e.Fn, e.Exec}], strings.Join(args, ", ")))
			if r.H.Ops[i].Kind == OpInvoke && e.Fn == r.H.Ops[i].Fn {
				// the wiring of the invoked function itself
				e := e
				o.Wiring = append(o.Wiring, fmt.Sprintf("f%d (%s)", e.Fn, r.wiringOf(&e)))
			}
		}
		for _, np := range r.W.NestedProv {
			if np.Op == i {
				o.Execs = append(o.Execs, fmt.Sprintf("provide-inside-invoke f%d -> %s", np.Fn, verdictOf(np.Facts)))
			}
		}
		sort.Strings(o.Execs)
		sort.Strings(o.Wiring)
		out[i] = o
	}
	return out
}

// usedKeys lists every key that appears in a parameter or result of the
// history's functions, in a deterministic order.
func usedKeys(h *History) []Key {
	seen := map[Key]bool{}
	var ks []Key
	add := func(k Key) {
		if !seen[k] {
			seen[k] = true
			ks = append(ks, k)
		}
	}
	for i := range h.Funcs {
		f := &h.Funcs[i]
		for _, p := range f.LeafParams() {
			add(p.Key)
		}
		for _, k := range f.AllKeys() {
			add(k)
		}
	}
	sort.Slice(ks, func(a, b int) bool { return keyLess(ks[a], ks[b]) })
	return ks
}

// AppendCensus appends, for every scope, one probe Invoke per used key (at
// most max probes, chosen by the history's own seed): leftovers of earlier
// operations become observable.
func AppendCensus(h *History, max int) *History {
	c := h.Clone()
	keys := usedKeys(h)
	ns := h.NumScopes()
	type probe struct {
		s int
		k Key
	}
	var all []probe
	for s := 0; s < ns; s++ {
		for _, k := range keys {
			all = append(all, probe{s, k})
		}
	}
	if len(all) > max {
		r := NewRng(mix64(h.Seed, h.Run) ^ 0x5ca1ab1e)
		perm := r.Perm(len(all))
		sel := perm[:max]
		sort.Ints(sel)
		var pick []probe
		for _, i := range sel {
			pick = append(pick, all[i])
		}
		all = pick
	}
	for _, p := range all {
		f := Func{ID: len(c.Funcs), Role: RoleInv, Cat: -1}
		if p.k.IsGroup() {
			f.Params = []Param{{Kind: PObj, Fields: []Param{{Kind: PGroup, T: p.k.T, Group: p.k.Group}}}}
		} else if p.k.Name != "" {
			f.Params = []Param{{Kind: PObj, Fields: []Param{{Kind: PSingle, T: p.k.T, Name: p.k.Name}}}}
		} else {
			f.Params = []Param{{Kind: PSingle, T: p.k.T}}
		}
		c.Funcs = append(c.Funcs, f)
		c.Ops = append(c.Ops, Op{Kind: OpInvoke, Scope: p.s, Fn: f.ID, Census: true})
	}
	return c
}

// wiringByFn maps every function that executed successfully to the provenance
// of the arguments it received (fault-free runs: one execution each).
func wiringByFn(r *Run) map[int]string {
	out := map[int]string{}
	ok := map[[2]int]bool{}
	for _, e := range r.W.Log {
		if e.Kind == EvExit && e.Out == OutOK {
			ok[[2]int{e.Fn, e.Exec}] = true
		}
	}
	for _, e := range r.W.Log {
		// only executions inside successful Invokes: what a failing Invoke
		// had built before it failed depends on the unspecified order
		if e.Kind == EvEnter && ok[[2]int{e.Fn, e.Exec}] && r.Res[e.Op].Verdict == VOK {
			out[e.Fn] = r.wiringOf(&e)
		}
	}
	return out
}

// wiringOf renders the provenance of the arguments of one execution; soft
// group parameters are left out (their content is defined by what happened to
// be executed before, not by the registrations).
func (r *Run) wiringOf(e *Event) string {
	lp := r.H.Funcs[e.Fn].LeafParams()
	var args []string
	for i, a := range e.Args {
		if i < len(lp) && lp[i].Soft {
			args = append(args, "soft")
			continue
		}
		args = append(args, r.W.provOf(a))
	}
	return strings.Join(args, ", ")
}

func compareWiring(a, b *Run, skip map[int]bool) string {
	wa, wb := wiringByFn(a), wiringByFn(b)
	var fns []int
	for fn := range wa {
		fns = append(fns, fn)
	}
	sort.Ints(fns)
	for _, fn := range fns {
		if skip[fn] {
			continue // what it receives depends on the order of resolution by design
		}
		if x, ok := wb[fn]; ok && x != wa[fn] {
			return fmt.Sprintf("f%d received (%s) in one run and (%s) in the other", fn, wa[fn], x)
		}
	}
	return ""
}

type twinDiff struct {
	Op     int // op index in the primary history
	Detail string
}

// compareObs compares primary op a[i] with twin op b[mapOp(i)].
func compareObs(a, b []OpObs, mapOp func(i int) int, level string) *twinDiff {
	for i := range a {
		j := mapOp(i)
		if j < 0 {
			continue
		}
		if j >= len(b) {
			return &twinDiff{i, "twin history is shorter"}
		}
		if a[i].Verdict != b[j].Verdict {
			return &twinDiff{i, fmt.Sprintf("verdict %s vs %s", a[i].Verdict, b[j].Verdict)}
		}
		switch level {
		case "exact":
			if strings.Join(a[i].Execs, ";") != strings.Join(b[j].Execs, ";") {
				return &twinDiff{i, fmt.Sprintf("executions differ: %v vs %v", a[i].Execs, b[j].Execs)}
			}
		case "wiring-on-success":
			if a[i].Verdict == VOK && strings.Join(a[i].Wiring, ";") != strings.Join(b[j].Wiring, ";") {
				return &twinDiff{i, fmt.Sprintf("wiring differs: %v vs %v", a[i].Wiring, b[j].Wiring)}
			}
		}
	}
	return nil
}

// ---------------------------------------------------------------- C06: delete one rejected call

func evalC06(h *History) *Outcome {
	hc := AppendCensus(h, 24)
	c := RunChecked(hc)
	o := outcomeOf(c, "C06")
	o.CensusOps = len(hc.Ops) - len(h.Ops)
	o.NonTrivial = c.Probes["reuse_after_reject"] > 0
	if c.Diverged >= 0 {
		// the model and dig disagree on acceptance: reported by its own oracle
	}
	var rejected []int
	for i, r := range c.R.Res {
		k := hc.Ops[i].Kind
		if (k == OpProvide || k == OpDecorate || k == OpMalformed) && r.Verdict != VOK && !r.SkipMal {
			rejected = append(rejected, i)
		}
	}
	if len(rejected) == 0 || c.R3 {
		return o
	}
	prim := Observe(c.R)
	// at most 3 twins per history, chosen deterministically
	if len(rejected) > 3 {
		r := NewRng(mix64(h.Seed, h.Run) ^ 0xc06)
		p := r.Perm(len(rejected))[:3]
		sort.Ints(p)
		var sel []int
		for _, i := range p {
			sel = append(sel, rejected[i])
		}
		rejected = sel
	}
	for _, rj := range rejected {
		th := dropOps(hc, map[int]bool{rj: true})
		tr := Execute(th)
		o.Twins++
		tobs := Observe(tr)
		rj := rj
		d := compareObs(prim, tobs, func(i int) int {
			switch {
			case i == rj:
				return -1
			case i > rj:
				return i - 1
			}
			return i
		}, "exact")
		if d != nil {
			o.Viol = append(o.Viol, Violation{Props: []string{"C06"}, Class: "rejected-call-left-a-trace", Op: d.Op,
				Detail: fmt.Sprintf("deleting the rejected %s at op %d changes op %d (%s): %s", hc.Ops[rj].Kind, rj, d.Op, hc.Ops[d.Op].Kind, d.Detail)})
			break
		}
	}
	return o
}

// ---------------------------------------------------------------- C16: permutation / scope repositioning / deferral

// permuteBlocks returns a second linearisation: inside each maximal block of
// registrations (and scope creations) between two Invokes whose registrations
// were all accepted, the order is permuted; scope creations keep their
// relative order (indices stay stable) and precede every use of the scope.
func permuteBlocks(h *History, res []OpResult, r *Rng) (*History, []int, bool) {
	n := h.Clone()
	n.Ops = nil
	perm := make([]int, 0, len(h.Ops)) // perm[j] = primary index of twin op j
	moved := false
	i := 0
	scopeCount := 1
	for i < len(h.Ops) {
		k := h.Ops[i].Kind
		if k != OpProvide && k != OpDecorate && k != OpScope {
			n.Ops = append(n.Ops, h.Ops[i])
			perm = append(perm, i)
			i++
			continue
		}
		j := i
		allOK := true
		for j < len(h.Ops) && (h.Ops[j].Kind == OpProvide || h.Ops[j].Kind == OpDecorate || h.Ops[j].Kind == OpScope) {
			if res[j].Verdict != VOK {
				allOK = false
			}
			j++
		}
		block := make([]int, 0, j-i)
		for x := i; x < j; x++ {
			block = append(block, x)
		}
		if allOK && len(block) > 1 {
			// random topological order: scope ops in original relative
			// order, every op after the creation of the scope it targets
			var scopeOps, others []int
			for _, x := range block {
				if h.Ops[x].Kind == OpScope {
					scopeOps = append(scopeOps, x)
				} else {
					others = append(others, x)
				}
			}
			p := r.Perm(len(others))
			shuffled := make([]int, len(others))
			for a, b := range p {
				shuffled[a] = others[b]
			}
			var order []int
			have := scopeCount // scopes existing so far
			si := 0
			pending := shuffled
			for len(pending) > 0 || si < len(scopeOps) {
				// optionally emit a scope creation now
				if si < len(scopeOps) && h.Ops[scopeOps[si]].Scope < have && (len(pending) == 0 || r.P(0.4)) {
					order = append(order, scopeOps[si])
					si++
					have++
					continue
				}
				emitted := false
				for a, x := range pending {
					if needScope(h, h.Ops[x]) < have {
						order = append(order, x)
						pending = append(pending[:a:a], pending[a+1:]...)
						emitted = true
						break
					}
				}
				if !emitted {
					if si >= len(scopeOps) {
						return nil, nil, false // cannot happen
					}
					order = append(order, scopeOps[si])
					si++
					have++
				}
			}
			for a, x := range order {
				if x != block[a] {
					moved = true
				}
			}
			block = order
		}
		for _, x := range block {
			if h.Ops[x].Kind == OpScope {
				scopeCount++
			}
			n.Ops = append(n.Ops, h.Ops[x])
			perm = append(perm, x)
		}
		i = j
	}
	return n, perm, moved
}

// needScope is the highest scope index op o needs to exist: its target, and
// the scopes its function's body refers to (nested requests, registrations
// from inside an invoked function).
func needScope(h *History, o Op) int {
	n := o.Scope
	if o.Kind == OpProvide || o.Kind == OpDecorate || o.Kind == OpInvoke {
		f := &h.Funcs[o.Fn]
		if f.Reenter && f.ReKey != nil && f.ReScope > n {
			n = f.ReScope
		}
		if f.ThenProvide > 0 {
			if f.ThenScope > n {
				n = f.ThenScope
			}
			if t := f.ThenProvide - 1; t < len(h.Funcs) {
				if g := &h.Funcs[t]; g.Reenter && g.ReKey != nil && g.ReScope > n {
					n = g.ReScope
				}
			}
		}
	}
	return n
}

// moveScopes returns a linearisation in which only the scope creations move,
// across registrations *and* Invokes: to the very beginning (early) or as late
// as possible (just before the first operation that needs the scope). The
// creations keep their relative order, so scope indices are unchanged.
func moveScopes(h *History, early bool) (*History, []int, bool) {
	var scopeOps []int
	for i, o := range h.Ops {
		if o.Kind == OpScope {
			scopeOps = append(scopeOps, i)
		}
	}
	if len(scopeOps) == 0 {
		return nil, nil, false
	}
	// pos[k]: the creation of scope k+1 is emitted right before primary op pos[k]
	pos := make([]int, len(scopeOps))
	if early {
		for k := range pos {
			pos[k] = 0
		}
	} else {
		for k := len(scopeOps) - 1; k >= 0; k-- {
			first := len(h.Ops)
			for i, o := range h.Ops {
				if i == scopeOps[k] {
					continue
				}
				if (o.Scope == k+1 || needScope(h, o) >= k+1) && i < first {
					first = i
				}
			}
			if k+1 < len(pos) && pos[k+1] < first {
				first = pos[k+1]
			}
			if first < scopeOps[k] {
				first = scopeOps[k] // never earlier than where it was (cannot happen: uses follow creation)
			}
			pos[k] = first
		}
	}
	n := h.Clone()
	n.Ops = nil
	var perm []int
	k := 0
	moved := false
	for i := 0; i <= len(h.Ops); i++ {
		for k < len(scopeOps) && pos[k] <= i {
			if len(n.Ops) != scopeOps[k] {
				moved = true
			}
			n.Ops = append(n.Ops, h.Ops[scopeOps[k]])
			perm = append(perm, scopeOps[k])
			k++
		}
		if i < len(h.Ops) && h.Ops[i].Kind != OpScope {
			n.Ops = append(n.Ops, h.Ops[i])
			perm = append(perm, i)
		}
	}
	// ErrFrom of Visualize ops refers to op indices: remap
	inv := make([]int, len(h.Ops))
	for j, i := range perm {
		inv[i] = j
	}
	for j := range n.Ops {
		if n.Ops[j].Kind == OpVisualize && n.Ops[j].ErrFrom > 0 {
			n.Ops[j].ErrFrom = inv[n.Ops[j].ErrFrom-1] + 1
		}
	}
	return n, perm, moved
}

func evalC16(h *History) *Outcome {
	hc := AppendCensus(h, 24)
	c := RunChecked(hc)
	o := outcomeOf(c, "C16")
	o.CensusOps = len(hc.Ops) - len(h.Ops)
	prim := Observe(c.R)
	r := NewRng(mix64(h.Seed, h.Run) ^ 0xc16)
	anyCycle := false
	for _, x := range c.R.Res {
		if x.Verdict == VCycle {
			anyCycle = true
		}
	}
	// a registration issued by an invoked function's body reports cycles too
	for _, np := range c.R.W.NestedProv {
		if verdictOf(np.Facts) == VCycle {
			anyCycle = true
		}
	}
	if c.R3 || c.Diverged >= 0 {
		// decorator-introduced keys exist only after the decorator ran: their
		// visibility depends on execution order by design (DESIGN §9 R3)
		c.probe("twin_skipped_r3")
		o.Probes = c.Probes
		return o
	}
	// What a failing Invoke had built before it failed depends on the
	// unspecified resolution order, and that partial progress can move later
	// executions across registrations. Claims are therefore made up to the
	// first Invoke that fails after it started resolving (a failure of the
	// Invoke's own shallow dependency check builds nothing); if there is none,
	// over the whole history including the census.
	limit := len(hc.Ops)
	for i, x := range c.R.Res {
		if hc.Ops[i].Kind == OpInvoke && x.Verdict != VOK && !c.HarmlessFail[i] {
			limit = i + 1
			break
		}
	}
	if limit == len(hc.Ops) {
		c.probe("twin_full_history")
	}
	// An Invoke that fails while resolving may have several causes at once (a
	// missing dependency behind one parameter, a cycle behind another); which
	// one is met first depends on the unspecified resolution order, hence on
	// the registration order. For such an Invoke only "fails in both orders" is
	// claimed, not the class of the failure.
	coarse := func(a, b []OpObs, mapOp func(int) int) {
		for i := range a {
			j := mapOp(i)
			if j < 0 || j >= len(b) || hc.Ops[i].Kind != OpInvoke || c.HarmlessFail[i] {
				continue
			}
			if a[i].Verdict != VOK && b[j].Verdict != VOK {
				b[j].Verdict = a[i].Verdict
			}
		}
	}
	// A decorator loop somewhere in the history (a function that can be built
	// while a decorator of one of its keys is on the stack): what that function
	// receives depends on the order of resolution by design (DESIGN §9 R2, F24),
	// and so may what it returns (how many members a decorated group has), and
	// with it the wiring of everything downstream. Verdicts are still compared
	// between orders; wiring is not.
	level := "wiring-on-success"
	if len(c.OrderDep) > 0 {
		level = "verdicts"
		c.probe("twin_wiring_skipped_decorator_loop")
	}
	// tau1: second linearisation
	th, perm, moved := permuteBlocks(hc, c.R.Res, r)
	if th != nil && moved {
		tr := Execute(th)
		o.Twins++
		tobs := Observe(tr)
		inv := make([]int, len(hc.Ops))
		for j, i := range perm {
			inv[i] = j
		}
		// the permutation keeps Invokes in place, so the prefix is the same in both runs
		primP, wiringOK := prim[:limit], limit == len(hc.Ops)
		coarse(primP, tobs, func(i int) int { return inv[i] })
		if d := compareObs(primP, tobs, func(i int) int { return inv[i] }, level); d != nil {
			o.Viol = append(o.Viol, Violation{Props: []string{"C16"}, Class: "order-dependent-outcome", Op: d.Op,
				Detail: fmt.Sprintf("a second order of the accepted registrations changes op %d (%s): %s; twin order %v", d.Op, hc.Ops[d.Op].Kind, d.Detail, perm)})
		} else if w := compareWiring(c.R, tr, c.OrderDep); w != "" && wiringOK && level != "verdicts" {
			o.Viol = append(o.Viol, Violation{Props: []string{"C16"}, Class: "order-dependent-wiring", Op: -1,
				Detail: fmt.Sprintf("a second order of the accepted registrations changes the wiring: %s; twin order %v", w, perm)})
		}
		o.NonTrivial = true
		c.probe("permuted")
	}
	// tau3 / tau4: only the scope creations move, across Invokes too: all of
	// them first, or each as late as its first use allows
	for _, early := range []bool{true, false} {
		th, perm, moved := moveScopes(hc, early)
		if th == nil || !moved {
			continue
		}
		tr := Execute(th)
		o.Twins++
		inv := make([]int, len(hc.Ops))
		for j, i := range perm {
			inv[i] = j
		}
		// a scope creation is always accepted; everything else is compared
		mapOp := func(i int) int {
			if hc.Ops[i].Kind == OpScope {
				return -1
			}
			return inv[i]
		}
		tobs := Observe(tr)
		coarse(prim[:limit], tobs, mapOp)
		if d := compareObs(prim[:limit], tobs, mapOp, level); d != nil {
			o.Viol = append(o.Viol, Violation{Props: []string{"C16", "C08"}, Class: "scope-creation-time-matters", Op: d.Op,
				Detail: fmt.Sprintf("creating the scopes %s changes op %d (%s): %s", map[bool]string{true: "before everything else", false: "as late as possible"}[early], d.Op, hc.Ops[d.Op].Kind, d.Detail)})
		} else if w := compareWiring(c.R, tr, c.OrderDep); w != "" && limit == len(hc.Ops) && level != "verdicts" {
			o.Viol = append(o.Viol, Violation{Props: []string{"C16", "C08"}, Class: "scope-creation-time-matters", Op: -1,
				Detail: fmt.Sprintf("creating the scopes %s changes the wiring: %s", map[bool]string{true: "before everything else", false: "as late as possible"}[early], w)})
		}
		o.NonTrivial = true
		c.probe(map[bool]string{true: "scopes_hoisted", false: "scopes_sunk"}[early])
	}
	// tau2: toggle DeferAcyclicVerification, on histories where no cycle is reported
	if !anyCycle {
		td := hc.Clone()
		td.Cfg.Defer = !td.Cfg.Defer
		tr := Execute(td)
		o.Twins++
		cyc := false
		for _, x := range tr.Res {
			if x.Verdict == VCycle {
				cyc = true
			}
		}
		for _, np := range tr.W.NestedProv {
			if verdictOf(np.Facts) == VCycle {
				cyc = true
			}
		}
		if !cyc {
			c.probe("defer_toggled")
			if d := compareObs(prim[:limit], Observe(tr), func(i int) int { return i }, "exact"); d != nil {
				o.Viol = append(o.Viol, Violation{Props: []string{"C16"}, Class: "deferral-changes-outcome", Op: d.Op,
					Detail: fmt.Sprintf("toggling DeferAcyclicVerification (no cycle reported in either run) changes op %d (%s): %s", d.Op, hc.Ops[d.Op].Kind, d.Detail)})
			}
		} else if !td.Cfg.Defer {
			// deferral off reports a cycle that the deferred run never reported:
			// legitimate only if some Invoke-time verification was never reached
			c.probe("defer_hidden_cycle")
		}
	}
	o.Probes = c.Probes
	return o
}

// ---------------------------------------------------------------- C17: dry run

func digClass(v Verdict) string {
	switch v {
	case VOK:
		return "accepted"
	case VCycle:
		return "cycle"
	case VMissing:
		return "missing"
	case VDigOther:
		return "invalid-or-duplicate"
	}
	return v.String()
}

func evalC17(h *History) *Outcome {
	hn := h.Clone()
	hn.Cfg.DryRun = false
	hn.Faults = nil
	c := RunChecked(hn)
	o := outcomeOf(c, "C17")
	// the dry twin
	hd := hn.Clone()
	hd.Cfg.DryRun = true
	d := RunChecked(hd)
	o.Twins++
	for _, v := range d.Viol {
		if v.Has("C17") {
			o.Viol = append(o.Viol, v)
		}
	}
	nenter := 0
	for _, e := range d.R.W.Log {
		if e.Kind == EvEnter {
			nenter++
		}
	}
	normalExec := 0
	for _, e := range c.R.W.Log {
		if e.Kind == EvEnter {
			normalExec++
		}
	}
	for i := range c.R.Res {
		a, b := c.R.Res[i], d.R.Res[i]
		if a.Facts.Escaped || b.Facts.Escaped {
			if b.Facts.Escaped && !a.Facts.Escaped {
				o.Viol = append(o.Viol, Violation{Props: []string{"C17", "C14"}, Class: "dry-run-panic", Op: i, Detail: firstLine(b.Facts.EscText)})
			}
			continue
		}
		if digClass(a.Verdict) != digClass(b.Verdict) {
			o.Viol = append(o.Viol, Violation{Props: []string{"C17"}, Class: "dry-run-verdict-differs", Op: i,
				Detail: fmt.Sprintf("op %d (%s): normal container %s (%s), dry container %s (%s)", i, hn.Ops[i].Kind, digClass(a.Verdict), firstLine(a.Facts.Text), digClass(b.Verdict), firstLine(b.Facts.Text))})
			break
		}
	}
	o.NonTrivial = normalExec >= 3 && len(c.M.S) >= 1
	if normalExec >= 3 {
		c.probe("normal_twin_executed>=3")
	}
	nonOK := false
	for _, r := range c.R.Res {
		if r.Verdict != VOK {
			nonOK = true
		}
	}
	if nonOK {
		c.probe("non_ok_verdict_compared")
	}
	o.Probes = c.Probes
	return o
}

func init() {
	register(&ClassDef{
		Prop: "C16",
		Rule: "history in which a block of accepted registrations was actually permuted (or a scope creation moved) in the twin run",
		Gen: genGeneric("C16", func(g *genCtx) {
			g.ft.FaultRate, g.ft.FaultInv = 0, 0
			g.ft.PRetry = 0.1
			g.ft.PAvail = []float64{0.9, 0.98, 1}[g.r.Intn(3)]
			g.ft.PDup = 0.03
			g.ft.Wild = []float64{0, 0, 0.15}[g.r.Intn(3)] // rejected (cyclic) registrations between the blocks
			if g.ft.MaxScopes < 2 {
				g.ft.MaxScopes = 3
			}
			if g.ft.Decorators && g.r.Intn(5) == 0 {
				g.tmpl = (*genCtx).tmplDecorateFirst
			}
		}, Mix{Scope: 3, Provide: 12, Decorate: 3, Invoke: 4, VisStr: 0}),
		Eval:       evalC16,
		QuickRuns:  60_000,
		WantProbes: []string{"permuted", "defer_toggled", "scopes_hoisted", "scopes_sunk"},
	})
	register(&ClassDef{
		Prop: "C17",
		Rule: "history whose normal twin executed at least 3 user functions (all of which the dry container must skip while reporting the same verdicts)",
		Gen: genGeneric("C17", func(g *genCtx) {
			g.ft.DeepChains = true
			g.ft.FaultRate, g.ft.FaultInv = 0, 0
			// every path to a user function: with callbacks attached, variadic
			// signatures, deep scope trees
			g.ft.Callbacks = g.r.P(0.5)
			g.ft.Variadic = g.r.P(0.6)
			g.ft.PThenProvide = 0 // the dry container never runs the function that would register
			// keys that only a decorator introduces: no model claim is made about
			// them, but dry and normal containers must still agree
			g.ft.DecoIntroduce = g.r.P(0.3)
			if g.r.P(0.5) {
				g.ft.MaxScopes, g.ft.MaxDepth = g.r.Range(3, 6), 3
			}
			g.ft.PAvail = 0.85
			g.ft.Wild = []float64{0, 0.15}[g.r.Intn(2)]
			g.ft.PDup = 0.15
		}, defaultMix),
		Eval:       evalC17,
		QuickRuns:  60_000,
		WantProbes: []string{"normal_twin_executed>=3", "non_ok_verdict_compared"},
	})
	Classes["C06"].Eval = evalC06
	Classes["C06"].QuickRuns = 50_000
}

// ---------------------------------------------------------------- C15: equivalent encodings

// reencode rewrites one function spec into an equivalent encoding: the leaf
// parameters / results stay in declaration order, only the wrapping changes.
func reencode(f *Func, r *Rng) (Func, bool) {
	n := deepCopyFunc(f)
	changed := false
	// parameters
	lp := f.LeafParams()
	hasSoft := false
	for _, p := range lp {
		// what a soft group holds -- and, for a decorated group, when its
		// decorator runs -- depends on which fields share its object (C11):
		// regrouping the fields is not an equivalent encoding
		hasSoft = hasSoft || p.Soft
	}
	if len(lp) > 0 && !hasSoft {
		var leaves []Param
		collectParams(deAnon(f.Params), &leaves)
		var out []Param
		var cur *Param
		for i, p := range leaves {
			must := p.Kind == PGroup || p.Name != "" || p.Opt
			if !must && r.P(0.4) {
				out = append(out, p)
				cur = nil
				continue
			}
			if cur == nil || r.P(0.25) {
				out = append(out, Param{Kind: PObj})
				cur = &out[len(out)-1]
			}
			q := p
			for d := r.Intn(3); d > 0; d-- {
				q = Param{Kind: PObj, Fields: []Param{q}, Embed: r.P(0.3)}
			}
			cur.Fields = append(cur.Fields, q)
			_ = i
		}
		n.Params = out
		changed = true
	}
	// variadic
	if r.P(0.3) {
		n.Variadic = !n.Variadic
		changed = true
	}
	// results (constructors without As; decorators keep their form unless all singles)
	if len(f.OptAs) == 0 {
		var leaves []Result
		collectResults(f, &leaves)
		n.OptName, n.OptGroup, n.OptFlatten = "", "", false
		allPlain := true
		for _, l := range leaves {
			if l.Kind != RSingle || l.Name != "" {
				allPlain = false
			}
		}
		switch {
		case f.Role == RoleCtor && len(leaves) == 1 && r.P(0.5):
			// a single result: positional, name/group moved to the option
			l := leaves[0]
			if l.Kind == RGroup {
				n.OptGroup, n.OptFlatten = l.Group, l.Flatten
			} else {
				n.OptName = l.Name
			}
			n.Results = []Result{{Kind: RSingle, T: l.T}}
		case allPlain && r.P(0.4):
			n.Results = leaves
		default:
			var out []Result
			var cur *Result
			for _, l := range leaves {
				must := l.Kind == RGroup || l.Name != ""
				if !must && r.P(0.3) {
					out = append(out, l)
					cur = nil
					continue
				}
				if cur == nil || r.P(0.25) {
					out = append(out, Result{Kind: RObj})
					cur = &out[len(out)-1]
				}
				q := l
				for d := r.Intn(3); d > 0; d-- {
					q = Result{Kind: RObj, Fields: []Result{q}}
				}
				cur.Fields = append(cur.Fields, q)
			}
			n.Results = out
		}
		changed = true
	}
	return n, changed
}

func collectParams(ps []Param, out *[]Param) {
	for _, p := range ps {
		if p.Kind == PObj {
			collectParams(p.Fields, out)
			continue
		}
		*out = append(*out, p)
	}
}

// collectResults lists the leaf results with option names/groups folded into
// the leaves (so that they can be re-expressed as tags).
func collectResults(f *Func, out *[]Result) {
	var walk func(rs []Result, top bool)
	walk = func(rs []Result, top bool) {
		for _, r := range rs {
			if r.Kind == RObj {
				walk(r.Fields, false)
				continue
			}
			if top && f.Role == RoleCtor && r.Kind == RSingle {
				if f.OptGroup != "" {
					r = Result{Kind: RGroup, T: r.T, Group: f.OptGroup, Flatten: f.OptFlatten}
				} else {
					r.Name = f.OptName
				}
			}
			*out = append(*out, r)
		}
	}
	walk(f.Results, true)
}

func evalC15(h *History) *Outcome {
	hc := AppendCensus(h, 16)
	c := RunChecked(hc)
	o := outcomeOf(c, "C15")
	o.CensusOps = len(hc.Ops) - len(h.Ops)
	r := NewRng(mix64(h.Seed, h.Run) ^ 0xc15)
	th := hc.Clone()
	nchanged := 0
	deep := false
	for i := range th.Funcs {
		if !fnUsed(th, i) {
			continue
		}
		nf, ch := reencode(&hc.Funcs[i], r)
		if hc.Funcs[i].Cat >= 0 {
			// a declared function (possibly with ignored unexported fields in
			// its parameter objects) against a reflect-made equivalent
			nf.Cat = -1
			nf.Params = deAnon(nf.Params)
			ch = true
			c.probe("declared_vs_dynamic")
		}
		if ch {
			th.Funcs[i] = nf
			nchanged++
		}
	}
	_ = deep
	// sanity: the re-encoding must preserve the declared leaves exactly
	for i := range th.Funcs {
		a, b := hc.Funcs[i].LeafParams(), th.Funcs[i].LeafParams()
		ra, rb := hc.Funcs[i].LeafResults(), th.Funcs[i].LeafResults()
		if !sameLeaves(a, b) || !sameResultLeaves(ra, rb) {
			o.Viol = append(o.Viol, Violation{Props: []string{"HARNESS"}, Class: "harness-reencode", Op: -1,
				Detail: fmt.Sprintf("re-encoding changed the leaves of %s -> %s", hc.Funcs[i].String(), th.Funcs[i].String())})
			return o
		}
	}
	tr := Execute(th)
	o.Twins++
	if d := compareObs(Observe(c.R), Observe(tr), func(i int) int { return i }, "exact"); d != nil {
		o.Viol = append(o.Viol, Violation{Props: []string{"C15"}, Class: "encoding-changes-outcome", Op: d.Op,
			Detail: fmt.Sprintf("op %d (%s): original encoding vs re-encoded functions: %s; re-encoded: %s", d.Op, hc.Ops[d.Op].Kind, d.Detail, describeFn(th, hc.Ops[d.Op]))})
	}
	o.NonTrivial = nchanged >= 2
	c.probe("reencoded")
	o.Probes = c.Probes
	return o
}

func describeFn(h *History, op Op) string {
	if op.Kind == OpProvide || op.Kind == OpDecorate || op.Kind == OpInvoke {
		return h.Funcs[op.Fn].String()
	}
	return ""
}

func sameLeaves(a, b []LeafParam) bool {
	if len(a) != len(b) {
		return false
	}
	for i := range a {
		if a[i].Key != b[i].Key || a[i].Opt != b[i].Opt || a[i].Soft != b[i].Soft || a[i].NamedSlice != b[i].NamedSlice || a[i].NamedAlt != b[i].NamedAlt {
			return false
		}
	}
	return true
}

func sameResultLeaves(a, b []LeafResult) bool {
	if len(a) != len(b) {
		return false
	}
	for i := range a {
		if a[i].Flatten != b[i].Flatten || len(a[i].Keys) != len(b[i].Keys) {
			return false
		}
		for j := range a[i].Keys {
			if a[i].Keys[j] != b[i].Keys[j] {
				return false
			}
		}
	}
	return true
}

func init() {
	register(&ClassDef{
		Prop: "C15",
		Rule: "history in which at least 2 functions were re-encoded (positional <-> dig.In/dig.Out at depth 1-3, option <-> tag, variadic toggled) in the twin run",
		Gen: genGeneric("C15", func(g *genCtx) {
			g.ft.FaultRate = []float64{0, 0.15}[g.r.Intn(2)]
			g.ft.FaultInv = g.ft.FaultRate / 2
			g.ft.Objects = true
			g.ft.PAvail = 0.9
			g.ft.PWide = []float64{0, 0.03, 0.08}[g.r.Intn(3)]
			g.ft.DecoIntroduce = g.r.P(0.2) // equivalence of encodings also holds for decorator-introduced keys
			if g.r.Intn(5) == 0 {
				g.ft.Catalog = true
				g.ft.NT = 6
				g.ft.Names, g.ft.Groups = []string{"n1", "n2"}, []string{"g1", "g2"}
			}
		}, defaultMix),
		Eval:       evalC15,
		QuickRuns:  60_000,
		WantProbes: []string{"reencoded"},
	})
}

// ---------------------------------------------------------------- C14: bad input

func evalC14(h *History) *Outcome {
	o := evalC06(h)
	// evalC06 ran the history with the census and the delete-one-rejected-call
	// twins; re-tag what it found for this property.
	c := o.Real
	var viol []Violation
	for _, v := range c.Viol {
		if v.Has("C14") || v.Has("HARNESS") {
			viol = append(viol, v)
		}
	}
	for _, v := range o.Viol {
		if v.Class == "rejected-call-left-a-trace" {
			v.Props = append(v.Props, "C14")
			v.Class = "rejected-input-left-a-trace"
			viol = append(viol, v)
		}
	}
	o.Viol = viol
	nmal, nrej := 0, 0
	for i, op := range c.H.Ops {
		if op.Kind == OpMalformed && !c.R.Res[i].SkipMal {
			nmal++
			c.probe("mal:" + op.Mal.API + "/" + op.Mal.Kind)
			if c.R.Res[i].Verdict != VOK {
				nrej++
			}
		}
	}
	o.NonTrivial = nmal >= 2 && nrej >= 1
	o.Probes = c.Probes
	return o
}

func init() {
	register(&ClassDef{
		Prop: "C14",
		Rule: "history with at least 2 calls from the malformed-input grammar, at least one of them rejected, followed by further operations, Visualize and String",
		Gen: genGeneric("C14", func(g *genCtx) {
			// failing decorators / constructors reach the error paths of
			// Visualize; the no-trace twin is still exact (faults are keyed by
			// function and execution index)
			g.ft.FaultRate = []float64{0, 0.1, 0.25}[g.r.Intn(3)]
			g.ft.FaultInv = 0
			g.ft.VisAfterInvoke = 0.3
			g.ft.GroupDecs = g.r.P(0.7)
			g.ft.MalRate = []float64{0.15, 0.3, 0.5}[g.r.Intn(3)]
			g.ft.PAvail = 0.85
			if g.r.Intn(3) == 0 {
				// declared functions have distinct constructor ids, which the
				// error paths of Visualize look up
				g.ft.Catalog = true
				g.ft.NT = 6
				g.ft.Names, g.ft.Groups = []string{"n1", "n2"}, []string{"g1", "g2"}
			}
			g.ft.NamedSlice = g.r.P(0.3)
			g.ft.DecoIntroduce = g.r.P(0.3)
			// registrations rejected for a cycle (also ones with Group + As)
			// are inputs that must change nothing, too
			g.ft.Wild = []float64{0, 0.15, 0.4}[g.r.Intn(3)]
			g.ft.As = g.r.P(0.6)
			// registrations issued by an invoked function that then fails
			g.ft.PThenProvide = []float64{0, 0.06, 0.15}[g.r.Intn(3)]
		}, Mix{Scope: 2, Provide: 8, Decorate: 3, Invoke: 8, VisStr: 4}),
		Eval:      evalC14,
		QuickRuns: 50_000,
	})
}
