package sim

import (
	"fmt"

	"go.uber.org/dig"
)

// GraphCase is an explicit digraph handed to dig's internal cycle detector
// through the VerifIsAcyclic hook (C05: "a reported cycle path is a real closed
// path", verdict equals a reference SCC computation).
type GraphCase struct {
	N     int     `json:"n"`
	Edges [][]int `json:"edges"` // adjacency lists
}

func graphFromBits(n int, bits uint64) *GraphCase {
	g := &GraphCase{N: n, Edges: make([][]int, n)}
	for u := 0; u < n; u++ {
		for v := 0; v < n; v++ {
			if bits&(1<<uint(u*n+v)) != 0 {
				g.Edges[u] = append(g.Edges[u], v)
			}
		}
	}
	return g
}

func randomGraph(r *Rng) *GraphCase {
	n := r.Range(1, 12)
	p := []float64{0.05, 0.1, 0.2, 0.4}[r.Intn(4)]
	if r.P(0.15) {
		// large sparse digraphs (node numbers beyond any machine-word bitset)
		n = r.Range(60, 150)
		p = []float64{0.5, 1, 1.5, 3}[r.Intn(4)] / float64(n)
	}
	g := &GraphCase{N: n, Edges: make([][]int, n)}
	for u := 0; u < n; u++ {
		for v := 0; v < n; v++ {
			if r.P(p) {
				g.Edges[u] = append(g.Edges[u], v)
				if r.P(0.05) {
					g.Edges[u] = append(g.Edges[u], v) // duplicate edge
				}
			}
		}
	}
	return g
}

// genGraphCase: exhaustive n=3 (512 graphs), then exhaustive n=4 (65536), then seeded random n<=12.
func genGraphCase(idx int64, r *Rng) *GraphCase {
	// every other case is a seeded random digraph; the rest enumerate
	if idx%2 == 1 {
		return randomGraph(r)
	}
	idx /= 2
	switch {
	case idx < 512:
		return graphFromBits(3, uint64(idx))
	case idx < 512+65536:
		return graphFromBits(4, uint64(idx-512))
	}
	return randomGraph(r)
}

// hasCycleRef: reference verdict by iterative colouring (independent of dig's code).
func hasCycleRef(g *GraphCase) bool {
	color := make([]int, g.N) // 0 white 1 grey 2 black
	var visit func(u int) bool
	visit = func(u int) bool {
		color[u] = 1
		for _, v := range g.Edges[u] {
			if color[v] == 1 {
				return true
			}
			if color[v] == 0 && visit(v) {
				return true
			}
		}
		color[u] = 2
		return false
	}
	for u := 0; u < g.N; u++ {
		if color[u] == 0 && visit(u) {
			return true
		}
	}
	return false
}

func evalGraphCase(h *History) *Outcome {
	g := h.Graph
	o := &Outcome{Probes: map[string]int{"graph_case": 1}, Fingerprint: fmt.Sprintf("graph %d %v", g.N, g.Edges)}
	var ok bool
	var path []int
	panicked := func() (p interface{}) {
		defer func() { p = recover() }()
		ok, path = dig.VerifIsAcyclic(g.N, g.Edges)
		return nil
	}()
	if panicked != nil {
		o.Viol = append(o.Viol, Violation{Props: []string{"C05"}, Class: "isacyclic-panic", Op: -1, Detail: fmt.Sprint(panicked)})
		return o
	}
	ref := hasCycleRef(g)
	o.NonTrivial = ref || g.N >= 3
	if ok == ref {
		o.Viol = append(o.Viol, Violation{Props: []string{"C05"}, Class: "isacyclic-verdict", Op: -1,
			Detail: fmt.Sprintf("IsAcyclic=%v on a digraph (n=%d, %v) that %s a cycle", ok, g.N, g.Edges, map[bool]string{true: "has", false: "does not have"}[ref])})
		return o
	}
	if !ok {
		o.Probes["graph_cycle_path"] = 1
		has := func(u, v int) bool {
			if u < 0 || u >= g.N {
				return false
			}
			for _, x := range g.Edges[u] {
				if x == v {
					return true
				}
			}
			return false
		}
		bad := len(path) < 2 || path[0] != path[len(path)-1]
		for i := 0; !bad && i+1 < len(path); i++ {
			if !has(path[i], path[i+1]) {
				bad = true
			}
		}
		if bad {
			o.Viol = append(o.Viol, Violation{Props: []string{"C05"}, Class: "isacyclic-path-not-closed", Op: -1,
				Detail: fmt.Sprintf("reported cycle path %v is not a closed walk over edges of %v", path, g.Edges)})
		}
	}
	return o
}
