package sim

// execMalformed issues a call with a value from the malformed grammar.
func (w *World) execMalformed(r *Run, op Op) (error, ErrFacts, bool) {
	return nil, ErrFacts{Nil: true, RootInj: noInj(), IsInj: noInj(), PanicInj: noInj(), EscInj: noInj()}, true
}
