package sim

import (
	"fmt"
	"reflect"
	"sort"
	"strings"

	"go.uber.org/dig"
)

// The malformed-input grammar (C14). Values are built over a type universe of
// their own (M*) so that an accepted odd-but-legal registration never
// interferes with the keys the reference model tracks.

type M0 struct{ X int }
type M1 struct{ X int }
type M2 struct{ X int }
type MS0 []*M0 // named slice type with methods

func (MS0) Foo()   {}
func (m *M0) Foo() {}
func (m *M1) Foo() {}

type MI interface{ Foo() }
type MJ interface{ Bar() }

// Declared parameter / result objects that embed a struct whose type name is
// unexported (legal with ignore-unexported, an error without).
type malInnerIn struct {
	dig.In
	A *M0 `optional:"true"`
}
type malInnerReq struct {
	dig.In
	A *M0
}
type malInnerDeep struct {
	malInnerIn
	C []*M0 `group:"mg"`
}
type MalOuterIgnore struct {
	dig.In `ignore-unexported:"true"`
	malInnerIn
	B *M0 `optional:"true"`
}
type MalOuterIgnoreReq struct {
	dig.In `ignore-unexported:"true"`
	malInnerReq
	B *M0 `optional:"true"`
}
type MalOuterIgnoreDeep struct {
	dig.In `ignore-unexported:"true"`
	malInnerDeep
	B []*M0 `group:"mg"`
}
type MalOuterIgnorePtr struct {
	dig.In `ignore-unexported:"true"`
	*malInnerIn
	B *M0 `optional:"true"`
}
type MalOuterStrict struct {
	dig.In
	malInnerIn
	B *M0 `optional:"true"`
}
type malInnerOut struct {
	dig.Out
	A *M1
}
type MalOuterOut struct {
	dig.Out
	malInnerOut
	B *M2
}

type malCall struct {
	fn    interface{}
	popts []dig.ProvideOption
	dopts []dig.DecorateOption
	iopts []dig.InvokeOption
}

type malCase struct {
	api   string // provide | decorate | invoke
	name  string
	build func(m *Mal) malCall
}

var (
	m0T   = reflect.TypeOf((*M0)(nil))
	m1T   = reflect.TypeOf((*M1)(nil))
	msT   = reflect.TypeOf(MS0(nil))
	miT   = reflect.TypeOf((*MI)(nil)).Elem()
	inPT  = reflect.TypeOf((*dig.In)(nil))
	outPT = reflect.TypeOf((*dig.Out)(nil))
)

// fieldTypes the tag grammar combines with tags.
var malFieldTypes = []reflect.Type{
	m0T, m1T, reflect.SliceOf(m0T), msT, miT,
	reflect.TypeOf((chan int)(nil)), reflect.TypeOf((<-chan int)(nil)), reflect.TypeOf((func())(nil)),
	reflect.TypeOf(map[string]int(nil)), reflect.TypeOf([2]int{}), reflect.TypeOf(0), reflect.TypeOf(""),
	errType, reflect.SliceOf(reflect.SliceOf(m0T)), reflect.TypeOf((*error)(nil)),
}

// stub builds a function of type ft that returns zero values.
func zeroStub(ft reflect.Type) interface{} {
	return reflect.MakeFunc(ft, func([]reflect.Value) []reflect.Value {
		out := make([]reflect.Value, ft.NumOut())
		for i := range out {
			out[i] = reflect.Zero(ft.Out(i))
		}
		return out
	}).Interface()
}

func structOf(embed reflect.Type, anonymous bool, embedTag string, fields ...reflect.StructField) (t reflect.Type, err error) {
	defer func() {
		if p := recover(); p != nil {
			err = fmt.Errorf("reflect.StructOf: %v", p)
		}
	}()
	fs := []reflect.StructField{{Name: embedName(embed), Type: embed, Anonymous: anonymous, Tag: reflect.StructTag(embedTag)}}
	fs = append(fs, fields...)
	return reflect.StructOf(fs), nil
}

func embedName(t reflect.Type) string {
	if t.Kind() == reflect.Ptr {
		return t.Elem().Name()
	}
	return t.Name()
}

var errMalUnbuildable = fmt.Errorf("malformed value cannot be constructed with reflect")

// inObj / outObj build `struct{ dig.In; F <type> `tag` }`.
func inObj(ft reflect.Type, tag string) (reflect.Type, error) {
	return structOf(inType, true, "", reflect.StructField{Name: "F", Type: ft, Tag: reflect.StructTag(tag)})
}

func outObj(ft reflect.Type, tag string) (reflect.Type, error) {
	return structOf(outType, true, "", reflect.StructField{Name: "F", Type: ft, Tag: reflect.StructTag(tag)})
}

func fnOf(in, out []reflect.Type) interface{} { return zeroStub(reflect.FuncOf(in, out, false)) }

func pick(m *Mal, n int) int {
	if n <= 0 {
		return 0
	}
	a := m.Arg % n
	if a < 0 {
		a += n
	}
	return a
}

var malCases = []malCase{
	// ---- values that are not usable functions
	{"provide", "nil", func(m *Mal) malCall { return malCall{fn: nil} }},
	{"decorate", "nil", func(m *Mal) malCall { return malCall{fn: nil} }},
	{"invoke", "nil", func(m *Mal) malCall { return malCall{fn: nil} }},
	{"provide", "typed-nil-func", func(m *Mal) malCall { return malCall{fn: (func() *M1)(nil)} }},
	{"decorate", "typed-nil-func", func(m *Mal) malCall { return malCall{fn: (func(*M0) *M0)(nil)} }},
	{"invoke", "typed-nil-func", func(m *Mal) malCall { return malCall{fn: (func())(nil)} }},
	{"provide", "non-func", func(m *Mal) malCall { return malCall{fn: nonFuncs[pick(m, len(nonFuncs))]} }},
	{"decorate", "non-func", func(m *Mal) malCall { return malCall{fn: nonFuncs[pick(m, len(nonFuncs))]} }},
	{"invoke", "non-func", func(m *Mal) malCall { return malCall{fn: nonFuncs[pick(m, len(nonFuncs))]} }},
	// ---- odd signatures
	{"provide", "no-results", func(m *Mal) malCall { return malCall{fn: func() {}} }},
	{"provide", "only-error", func(m *Mal) malCall { return malCall{fn: func() error { return nil }} }},
	{"provide", "error-first", func(m *Mal) malCall { return malCall{fn: func() (error, *M2) { return nil, &M2{} }} }},
	{"provide", "two-errors", func(m *Mal) malCall { return malCall{fn: func() (*M2, error, error) { return &M2{}, nil, nil }} }},
	{"provide", "takes-error", func(m *Mal) malCall { return malCall{fn: func(error) *M2 { return &M2{} }} }},
	{"decorate", "no-results", func(m *Mal) malCall { return malCall{fn: func(*M0) {}} }},
	{"decorate", "only-error", func(m *Mal) malCall { return malCall{fn: func(*M0) error { return nil }} }},
	{"provide", "odd-result-type", func(m *Mal) malCall {
		t := malFieldTypes[pick(m, len(malFieldTypes))]
		return malCall{fn: fnOf(nil, []reflect.Type{t})}
	}},
	{"provide", "odd-param-type", func(m *Mal) malCall {
		t := malFieldTypes[pick(m, len(malFieldTypes))]
		return malCall{fn: fnOf([]reflect.Type{t}, []reflect.Type{reflect.TypeOf((*M2)(nil))})}
	}},
	{"invoke", "odd-param-type", func(m *Mal) malCall {
		t := malFieldTypes[pick(m, len(malFieldTypes))]
		return malCall{fn: fnOf([]reflect.Type{t}, nil)}
	}},
	{"invoke", "returns-values", func(m *Mal) malCall { return malCall{fn: func() (*M0, int) { return nil, 0 }} }},
	{"provide", "variadic-only", func(m *Mal) malCall { return malCall{fn: func(...*M0) *M2 { return &M2{} }} }},
	// ---- In / Out misuse
	{"provide", "returns-In", func(m *Mal) malCall {
		t, _ := inObj(m0T, "")
		return malCall{fn: fnOf(nil, []reflect.Type{t})}
	}},
	{"provide", "takes-Out", func(m *Mal) malCall {
		t, _ := outObj(m0T, "")
		return malCall{fn: fnOf([]reflect.Type{t}, []reflect.Type{m1T})}
	}},
	{"invoke", "takes-Out", func(m *Mal) malCall {
		t, _ := outObj(m0T, "")
		return malCall{fn: fnOf([]reflect.Type{t}, nil)}
	}},
	{"provide", "ptr-In-param", func(m *Mal) malCall {
		t, _ := inObj(m0T, "")
		return malCall{fn: fnOf([]reflect.Type{reflect.PtrTo(t)}, []reflect.Type{m1T})}
	}},
	{"provide", "ptr-Out-result", func(m *Mal) malCall {
		t, _ := outObj(m0T, "")
		return malCall{fn: fnOf(nil, []reflect.Type{reflect.PtrTo(t)})}
	}},
	{"provide", "ptr-Out-param", func(m *Mal) malCall {
		t, _ := outObj(m0T, "")
		return malCall{fn: fnOf([]reflect.Type{reflect.PtrTo(t)}, []reflect.Type{m1T})}
	}},
	{"provide", "ptr-In-result", func(m *Mal) malCall {
		t, _ := inObj(m0T, "")
		return malCall{fn: fnOf(nil, []reflect.Type{reflect.PtrTo(t)})}
	}},
	{"provide", "embed-ptr-In", func(m *Mal) malCall {
		t, err := structOf(inPT, true, "", reflect.StructField{Name: "F", Type: m0T})
		if err != nil {
			return malCall{fn: errMalUnbuildable}
		}
		return malCall{fn: fnOf([]reflect.Type{t}, []reflect.Type{m1T})}
	}},
	{"provide", "embed-ptr-Out", func(m *Mal) malCall {
		t, err := structOf(outPT, true, "", reflect.StructField{Name: "F", Type: m0T})
		if err != nil {
			return malCall{fn: errMalUnbuildable}
		}
		return malCall{fn: fnOf(nil, []reflect.Type{t})}
	}},
	{"provide", "In-as-named-field", func(m *Mal) malCall {
		t, _ := structOf(inType, false, "", reflect.StructField{Name: "F", Type: m0T})
		return malCall{fn: fnOf([]reflect.Type{t}, []reflect.Type{m1T})}
	}},
	{"provide", "In-and-Out", func(m *Mal) malCall {
		t, err := structOf(inType, true, "", reflect.StructField{Name: "Out", Type: outType, Anonymous: true}, reflect.StructField{Name: "F", Type: m0T})
		if err != nil {
			return malCall{fn: errMalUnbuildable}
		}
		if pick(m, 2) == 0 {
			return malCall{fn: fnOf([]reflect.Type{t}, []reflect.Type{m1T})}
		}
		return malCall{fn: fnOf(nil, []reflect.Type{t})}
	}},
	{"provide", "nested-In-deep", func(m *Mal) malCall {
		t, _ := inObj(m0T, `name:"deep"`)
		for d := 0; d < 1+pick(m, 4); d++ {
			t, _ = inObj(t, "")
		}
		return malCall{fn: fnOf([]reflect.Type{t}, []reflect.Type{m1T})}
	}},
	{"provide", "unexported-field", func(m *Mal) malCall {
		tags := []string{"", `ignore-unexported:"true"`, `ignore-unexported:"false"`, `ignore-unexported:"perhaps"`, `ignore-unexported:""`}
		hidden := hiddenField(m.Arg / 8)
		t, err := structOf(inType, true, tags[pick(m, len(tags))],
			reflect.StructField{Name: "F", Type: m0T}, hidden)
		if err != nil {
			return malCall{fn: errMalUnbuildable}
		}
		return malCall{fn: fnOf([]reflect.Type{t}, []reflect.Type{reflect.TypeOf((*M2)(nil))})}
	}},
	{"invoke", "unexported-field", func(m *Mal) malCall {
		tags := []string{"", `ignore-unexported:"true"`, `ignore-unexported:"perhaps"`}
		t, err := structOf(inType, true, tags[pick(m, len(tags))], hiddenField(m.Arg/8))
		if err != nil {
			return malCall{fn: errMalUnbuildable}
		}
		return malCall{fn: fnOf([]reflect.Type{t}, nil)}
	}},
	{"invoke", "unexported-embedded-In", func(m *Mal) malCall {
		// an embedded parameter object whose type name is unexported, with
		// and without ignore-unexported on the outer object
		inner, err := inObj(m0T, "")
		if err != nil {
			return malCall{fn: errMalUnbuildable}
		}
		tags := []string{`ignore-unexported:"true"`, "", `ignore-unexported:"false"`}
		t, err := structOf(inType, true, tags[pick(m, len(tags))],
			reflect.StructField{Name: "hiddenIn", PkgPath: "digsim", Type: inner, Anonymous: true})
		if err != nil {
			return malCall{fn: errMalUnbuildable}
		}
		return malCall{fn: fnOf([]reflect.Type{t}, nil)}
	}},
	{"provide", "unexported-embedded-In", func(m *Mal) malCall {
		inner, err := inObj(m0T, "")
		if err != nil {
			return malCall{fn: errMalUnbuildable}
		}
		tags := []string{`ignore-unexported:"true"`, "", `ignore-unexported:"false"`}
		t, err := structOf(inType, true, tags[pick(m, len(tags))],
			reflect.StructField{Name: "hiddenIn", PkgPath: "digsim", Type: inner, Anonymous: true})
		if err != nil {
			return malCall{fn: errMalUnbuildable}
		}
		return malCall{fn: fnOf([]reflect.Type{t}, []reflect.Type{reflect.TypeOf((*M2)(nil))})}
	}},
	// declared shapes: reflect.StructOf cannot embed a struct whose type name
	// is unexported, Go source can
	{"invoke", "declared-embedded-unexported", func(m *Mal) malCall {
		fns := []interface{}{func(MalOuterIgnore) {}, func(MalOuterIgnoreReq) {}, func(MalOuterStrict) {}, func(MalOuterIgnoreDeep) {},
			func(*M2, MalOuterIgnore) {}, func(MalOuterIgnorePtr) {}}
		return malCall{fn: fns[pick(m, len(fns))]}
	}},
	{"provide", "declared-embedded-unexported", func(m *Mal) malCall {
		fns := []interface{}{func(MalOuterIgnore) *M2 { return &M2{} }, func(MalOuterIgnoreReq) *M2 { return &M2{} },
			func(MalOuterStrict) *M2 { return &M2{} }, func(MalOuterIgnoreDeep) *M2 { return &M2{} },
			func() MalOuterOut { return MalOuterOut{} }, func() (MalOuterOut, error) { return MalOuterOut{}, nil },
			func(MalOuterIgnorePtr) *M2 { return &M2{} }}
		return malCall{fn: fns[pick(m, len(fns))]}
	}},
	{"decorate", "declared-embedded-unexported", func(m *Mal) malCall {
		fns := []interface{}{func(MalOuterIgnore) *M0 { return &M0{} }, func(MalOuterIgnoreReq) *M0 { return &M0{} },
			func(*M1) MalOuterOut { return MalOuterOut{} }}
		return malCall{fn: fns[pick(m, len(fns))]}
	}},
	{"provide", "unexported-out-field", func(m *Mal) malCall {
		hf := reflect.StructField{Name: "hidden", PkgPath: "digsim", Type: m1T}
		switch (m.Arg / 8) % 4 {
		case 1:
			hf.Tag = `group:"mg"`
		case 2:
			hf.Type, hf.Tag = reflect.SliceOf(m1T), `group:"mg,flatten"`
		case 3:
			hf.Tag = `name:"a"`
		}
		t, err := structOf(outType, true, "", hf)
		if err != nil {
			return malCall{fn: errMalUnbuildable}
		}
		return malCall{fn: fnOf(nil, []reflect.Type{t})}
	}},
	// ---- tag grammar (Str is the tag text; Arg selects the field type)
	{"provide", "in-tag", func(m *Mal) malCall {
		t, _ := inObj(malFieldTypes[pick(m, len(malFieldTypes))], m.Str)
		return malCall{fn: fnOf([]reflect.Type{t}, []reflect.Type{reflect.TypeOf((*M2)(nil))})}
	}},
	{"invoke", "in-tag", func(m *Mal) malCall {
		t, _ := inObj(malFieldTypes[pick(m, len(malFieldTypes))], m.Str)
		return malCall{fn: fnOf([]reflect.Type{t}, nil)}
	}},
	{"decorate", "in-tag", func(m *Mal) malCall {
		t, _ := inObj(malFieldTypes[pick(m, len(malFieldTypes))], m.Str)
		return malCall{fn: fnOf([]reflect.Type{t}, []reflect.Type{m0T})}
	}},
	{"provide", "out-tag", func(m *Mal) malCall {
		t, _ := outObj(malFieldTypes[pick(m, len(malFieldTypes))], m.Str)
		return malCall{fn: fnOf(nil, []reflect.Type{t})}
	}},
	{"decorate", "out-tag", func(m *Mal) malCall {
		t, _ := outObj(malFieldTypes[pick(m, len(malFieldTypes))], m.Str)
		return malCall{fn: fnOf([]reflect.Type{m0T}, []reflect.Type{t})}
	}},
	// ---- option combinations (Str carries names / groups)
	{"provide", "opt-as", func(m *Mal) malCall {
		as := [][]interface{}{{nil}, {42}, {new(int)}, {new(MJ)}, {new(MI), new(MJ)}, {new(MI)}, {(*MI)(nil), nil}, {}, {new(error)}, {new(interface{})}}
		fns := []interface{}{func() *M0 { return &M0{} }, func() MS0 { return nil }, func() (*M0, *M2) { return &M0{}, &M2{} }, func() MI { return &M0{} }}
		po := []dig.ProvideOption{dig.As(as[(m.Arg/4)%len(as)]...)}
		// malformed As next to other options, in either order
		switch (m.Arg / 64) % 5 {
		case 1:
			po = append(po, dig.Group("mg"))
		case 2:
			po = append([]dig.ProvideOption{dig.Group("mg")}, po...)
		case 3:
			po = append(po, dig.Name("a"))
		case 4:
			po = append([]dig.ProvideOption{dig.Export(true)}, po...)
		}
		return malCall{fn: fns[pick(m, len(fns))], popts: po}
	}},
	{"provide", "opt-name-group", func(m *Mal) malCall {
		var o []dig.ProvideOption
		parts := strings.SplitN(m.Str, "|", 2)
		if parts[0] != "" {
			o = append(o, dig.Name(parts[0]))
		}
		if len(parts) > 1 && parts[1] != "" {
			o = append(o, dig.Group(parts[1]))
		}
		fns := []interface{}{func() *M0 { return &M0{} }, func() []*M0 { return nil }, func() MS0 { return nil }, func() (*M0, *M1) { return &M0{}, &M1{} }}
		return malCall{fn: fns[pick(m, len(fns))], popts: o}
	}},
	{"provide", "opt-group-as", func(m *Mal) malCall {
		fns := []interface{}{func() MS0 { return MS0{&M0{}} }, func() *M0 { return &M0{} }, func() []*M0 { return []*M0{{}} }}
		grp := []string{"mg,flatten", "mg", ",flatten", "mg,soft"}
		return malCall{fn: fns[pick(m, len(fns))], popts: []dig.ProvideOption{dig.Group(grp[(m.Arg/3)%len(grp)]), dig.As(new(MI))}}
	}},
	{"provide", "opt-misc", func(m *Mal) malCall {
		opts := [][]dig.ProvideOption{
			{dig.LocationForPC(0)}, {dig.LocationForPC(1)}, {dig.WithProviderCallback(nil)}, {dig.FillProvideInfo(nil)},
			{dig.Export(true), dig.Export(false)}, {dig.Name("a"), dig.Name("")}, {dig.LocationForPC(0), dig.WithProviderCallback(func(dig.CallbackInfo) {})},
		}
		return malCall{fn: func() *M2 { return &M2{} }, popts: opts[pick(m, len(opts))]}
	}},
	{"decorate", "opt-misc", func(m *Mal) malCall {
		opts := [][]dig.DecorateOption{{dig.FillDecorateInfo(nil)}, {dig.WithDecoratorCallback(nil)}}
		return malCall{fn: func(x *M0) *M0 { return x }, dopts: opts[pick(m, len(opts))]}
	}},
	{"invoke", "opt-misc", func(m *Mal) malCall {
		return malCall{fn: func() {}, iopts: []dig.InvokeOption{dig.FillInvokeInfo(nil)}}
	}},
	// ---- decorators of odd shape
	{"decorate", "group-single-value", func(m *Mal) malCall {
		t, _ := outObj(m0T, `group:"mg"`)
		return malCall{fn: fnOf(nil, []reflect.Type{t})}
	}},
	{"decorate", "group-flatten", func(m *Mal) malCall {
		ts := []reflect.Type{reflect.SliceOf(m0T), reflect.SliceOf(reflect.SliceOf(m0T)), msT}
		t, _ := outObj(ts[pick(m, len(ts))], `group:"mg,flatten"`)
		return malCall{fn: fnOf(nil, []reflect.Type{t})}
	}},
	{"decorate", "same-key-twice", func(m *Mal) malCall { return malCall{fn: func(a *M0) (*M0, *M0) { return a, a }} }},
	{"decorate", "plain", func(m *Mal) malCall {
		fns := []interface{}{func(a *M0) *M0 { return a }, func(a *M1) *M1 { return a }, func() *M2 { return &M2{} }}
		return malCall{fn: fns[pick(m, len(fns))]}
	}},
	// ---- legal registrations and probes over the M universe, so that state
	// left behind by the cases above is exercised
	{"provide", "plain", func(m *Mal) malCall {
		fns := []interface{}{func() *M0 { return &M0{} }, func() *M1 { return &M1{} }, func(*M0) *M2 { return &M2{} }, func() MS0 { return MS0{&M0{}} }}
		return malCall{fn: fns[pick(m, len(fns))]}
	}},
	{"invoke", "probe", func(m *Mal) malCall {
		g1, _ := inObj(reflect.SliceOf(m0T), `group:"mg"`)
		g2, _ := inObj(msT, `group:"mg"`)
		g3, _ := inObj(reflect.SliceOf(m0T), `group:""`)
		g4, _ := inObj(reflect.SliceOf(miT), `group:"mg"`)
		n1, _ := inObj(m0T, `name:"a"`)
		o1, _ := inObj(m1T, `optional:"true"`)
		fns := []interface{}{func(*M0) {}, func(*M1) {}, func(*M2) {}, func(MS0) {}, func([]*M0) {}, func(MI) {},
			fnOf([]reflect.Type{g1}, nil), fnOf([]reflect.Type{g2}, nil), fnOf([]reflect.Type{g3}, nil), fnOf([]reflect.Type{g4}, nil),
			fnOf([]reflect.Type{n1}, nil), fnOf([]reflect.Type{o1}, nil), func(*M0, *M1, *M2) {}}
		return malCall{fn: fns[pick(m, len(fns))]}
	}},
}

func init() {
	// whole signatures drawn from the type grammar (malsig.go)
	for _, api := range []string{"provide", "decorate", "invoke"} {
		malCases = append(malCases, randomSigCase(api))
		malIndex[api+"/random-sig"] = len(malCases) - 1
	}
}

// hiddenField draws an unexported field: plain, or carrying one of the tags
// dig interprets (a tag must not let an unexported field slip past the
// "unexported fields not allowed" check).
func hiddenField(arg int) reflect.StructField {
	f := reflect.StructField{Name: "hidden", PkgPath: "digsim", Type: m0T}
	if arg%2 == 0 {
		f.Type = m1T
	}
	switch arg % 6 {
	case 1:
		f.Type, f.Tag = reflect.SliceOf(m0T), `group:"mg"`
	case 2:
		f.Type, f.Tag = reflect.SliceOf(m0T), `group:"mg,soft"`
	case 3:
		f.Tag = `optional:"true"`
	case 4:
		f.Tag = `name:"a"`
	case 5:
		f.Type, f.Tag = msT, `group:"mg"`
	}
	switch (arg / 6) % 4 {
	case 1:
		f.Name = "_" // blank and underscore names are unexported too
	case 2:
		f.Name = "_x"
	}
	return f
}

var nonFuncs = []interface{}{42, "x", struct{}{}, &M0{}, []int{1}, map[string]int{}, 3.5, true, new(int), [2]int{}, MS0{}, fmt.Errorf("e"), dig.In{}, &dig.Out{}}

var malIndex = func() map[string]int {
	idx := map[string]int{}
	for i, c := range malCases {
		idx[c.api+"/"+c.name] = i
	}
	return idx
}()

// MalKinds lists "api/name" of every grammar production, sorted.
func MalKinds() []string {
	var ks []string
	for k := range malIndex {
		ks = append(ks, k)
	}
	sort.Strings(ks)
	return ks
}

// tagGrammar draws a struct tag string.
func tagGrammar(r *Rng) string {
	names := []string{`name:"a"`, `name:""`, `name:"a<b>"`, `name:"x&y"`, "name:\"q\\\"uote\"", `name:"` + "b`q" + `"`}
	opts := []string{`optional:"true"`, `optional:"false"`, `optional:"maybe"`, `optional:"1"`, `optional:""`, `optional:"TRUE"`, `optional:"yes"`}
	groups := []string{`group:"mg"`, `group:",flatten"`, `group:"mg,flatten"`, `group:"mg,soft"`, `group:"mg,flatten,soft"`, `group:"mg,bogus"`, `group:","`,
		`group:"mg,,"`, `group:"mg,flatten,flatten"`, `group:",soft"`, `group:"m<g>"`, `group:"mg,Soft"`, `group:" mg"`}
	misc := []string{`ignore-unexported:"true"`, `group`, `name=a`, `json:"x"`, `optional`, `group:mg`}
	var parts []string
	if r.P(0.4) {
		parts = append(parts, names[r.Intn(len(names))])
	}
	if r.P(0.4) {
		parts = append(parts, opts[r.Intn(len(opts))])
	}
	if r.P(0.5) {
		parts = append(parts, groups[r.Intn(len(groups))])
	}
	if r.P(0.1) {
		parts = append(parts, misc[r.Intn(len(misc))])
	}
	p := r.Perm(len(parts))
	out := make([]string, len(parts))
	for i, j := range p {
		out[i] = parts[j]
	}
	return strings.Join(out, " ")
}

func nameGroupGrammar(r *Rng) string {
	names := []string{"", "a", "b`q", "a<b>", "x y", "\"", "é"}
	groups := []string{"", "mg", "mg,flatten", ",flatten", "mg,soft", "mg,bogus", "m`g", ",", "mg,flatten,soft"}
	return names[r.Intn(len(names))] + "|" + groups[r.Intn(len(groups))]
}

// GenMal draws one malformed call.
func GenMal(r *Rng) *Mal {
	c := malCases[r.Intn(len(malCases))]
	m := &Mal{API: c.api, Kind: c.name, Arg: r.Intn(1 << 16)}
	switch c.name {
	case "in-tag", "out-tag":
		m.Str = tagGrammar(r)
		if r.P(0.4) {
			// slice-typed fields make the group tags meaningful
			m.Arg = 2 + r.Intn(2)
		}
	case "opt-name-group":
		m.Str = nameGroupGrammar(r)
	}
	return m
}

// execMalformed issues a call with a value from the malformed grammar.
func (w *World) execMalformed(r *Run, op Op) (error, ErrFacts, bool) {
	none := ErrFacts{Nil: true, RootInj: noInj(), IsInj: noInj(), PanicInj: noInj(), EscInj: noInj()}
	if op.Mal == nil {
		return nil, none, true
	}
	i, ok := malIndex[op.Mal.API+"/"+op.Mal.Kind]
	if !ok {
		return nil, none, true
	}
	var call malCall
	built := func() (ok bool) {
		defer func() {
			if p := recover(); p != nil {
				ok = false
			}
		}()
		call = malCases[i].build(op.Mal)
		return true
	}()
	if !built || call.fn == error(errMalUnbuildable) {
		return nil, none, true
	}
	sc := w.Scopes[op.Scope]
	err, facts := w.guard(func() error {
		switch op.Mal.API {
		case "provide":
			if op.Scope == 0 {
				return w.C.Provide(call.fn, call.popts...)
			}
			return sc.Provide(call.fn, call.popts...)
		case "decorate":
			if op.Scope == 0 {
				return w.C.Decorate(call.fn, call.dopts...)
			}
			return sc.Decorate(call.fn, call.dopts...)
		default:
			if op.Scope == 0 {
				return w.C.Invoke(call.fn, call.iopts...)
			}
			return sc.Invoke(call.fn, call.iopts...)
		}
	})
	return err, facts, false
}
