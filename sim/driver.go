package sim

import (
	"bytes"
	"crypto/sha256"
	"encoding/binary"
	"encoding/json"
	"flag"
	"fmt"
	"os"
	"os/exec"
	"path/filepath"
	"runtime"
	"runtime/debug"
	"sort"
	"strconv"
	"strings"
	"sync"
	"time"
)

// ---------------------------------------------------------------- replay files

type ReplayFile struct {
	Property string   `json:"property"`
	Class    string   `json:"class"`
	Detail   string   `json:"detail"`
	Op       int      `json:"op"`
	OrigOps  int      `json:"orig_ops"`
	History  *History `json:"history"`
	Readable []string `json:"readable"`
	// PrefixRuns: histories (run indices of the seeded generator, same
	// VERIF_SEED and tier) that are executed in the same process before the
	// history above. Only present when the violation does not show in a fresh
	// process on its own, i.e. when something outside the container under
	// test carries state from one container to the next.
	PrefixRuns []int64 `json:"prefix_runs,omitempty"`
	Seed       int64   `json:"seed,omitempty"`
	Thorough   bool    `json:"thorough,omitempty"`
}

func writeJSON(path string, v interface{}) error {
	b, err := json.MarshalIndent(v, "", " ")
	if err != nil {
		return err
	}
	os.MkdirAll(filepath.Dir(path), 0o755)
	return os.WriteFile(path, append(b, '\n'), 0o644)
}

func readReplay(path string) (*ReplayFile, error) {
	b, err := os.ReadFile(path)
	if err != nil {
		return nil, err
	}
	var rf ReplayFile
	if err := json.Unmarshal(b, &rf); err != nil {
		return nil, err
	}
	if rf.History == nil {
		return nil, fmt.Errorf("%s: no history", path)
	}
	return &rf, nil
}

// ---------------------------------------------------------------- worker

type WViolation struct {
	Run     int64    `json:"run"`
	Class   string   `json:"class"`
	Detail  string   `json:"detail"`
	Op      int      `json:"op"`
	OrigOps int      `json:"orig_ops"`
	History *History `json:"history"`
}

type WSummary struct {
	Done        int64            `json:"done"`
	NonTrivial  []uint64         `json:"nontrivial"`
	Probes      map[string]int   `json:"probes"`
	Faults      [5]int           `json:"faults"`
	SimNs       int64            `json:"sim_ns"`
	States      []uint64         `json:"states"`
	Ops         int64            `json:"ops"`
	Execs       int64            `json:"execs"`
	Twins       int64            `json:"twins"`
	CensusOps   int64            `json:"census_ops"`
	Divergences int64            `json:"divergences"`
	DivSample   string           `json:"div_sample,omitempty"`
	Violations  []WViolation     `json:"violations"`
	ClassCount  map[string]int64 `json:"class_count"`
	Samples     [][]string       `json:"samples"`
	LogHash     string           `json:"log_hash"` // hash over all run fingerprints (determinism proof)
	Next        int64            `json:"next"`     // first run index of this worker's residue class that was not executed
}

func fp64(s string) uint64 {
	h := sha256.Sum256([]byte(s))
	return binary.LittleEndian.Uint64(h[:8])
}

func workerMain(args []string) int {
	fs := flag.NewFlagSet("worker", flag.ExitOnError)
	prop := fs.String("prop", "", "")
	seed := fs.Int64("seed", 1, "")
	from := fs.Int64("from", 0, "")
	to := fs.Int64("to", 0, "")
	step := fs.Int64("step", 1, "")
	thorough := fs.Bool("thorough", false, "")
	journal := fs.String("journal", "", "")
	deadline := fs.Int64("deadline", 0, "unix seconds; stop starting new runs after it")
	noshrink := fs.Bool("noshrink", false, "")
	snapshot := fs.String("snapshot", "", "file receiving the cumulative summary every 256 runs")
	fs.Parse(args)
	debug.SetMaxStack(64 << 20)
	cd := Classes[*prop]
	if cd == nil {
		fmt.Fprintln(os.Stderr, "unknown property", *prop)
		return 2
	}
	var jf *os.File
	if *journal != "" {
		var err error
		jf, err = os.OpenFile(*journal, os.O_CREATE|os.O_WRONLY, 0o644)
		if err != nil {
			fmt.Fprintln(os.Stderr, err)
			return 2
		}
	}
	sum := &WSummary{Probes: map[string]int{}, ClassCount: map[string]int64{}}
	states := map[uint64]bool{}
	nt := map[uint64]bool{}
	shrunk := map[string]bool{}
	lh := sha256.New()
	var jb [8]byte
	finish := func() {
		sum.States = sum.States[:0]
		for s := range states {
			sum.States = append(sum.States, s)
		}
		sum.NonTrivial = sum.NonTrivial[:0]
		for s := range nt {
			sum.NonTrivial = append(sum.NonTrivial, s)
		}
		sum.LogHash = fmt.Sprintf("%x", lh.Sum(nil))
	}
	sum.Next = *from
	var ms runtime.MemStats
	for i := *from; i < *to; i += *step {
		if *deadline > 0 && sum.Done%16 == 0 && time.Now().Unix() > *deadline {
			break
		}
		if sum.Done%512 == 511 {
			// reflect keeps every dynamic type for the life of the process: hand
			// the rest of the chunk to a fresh process before memory becomes an issue
			runtime.ReadMemStats(&ms)
			if ms.Sys > 1500<<20 {
				break
			}
		}
		sum.Next = i + *step
		if *snapshot != "" && sum.Done > 0 && sum.Done%256 == 0 {
			finish()
			if b, err := json.Marshal(sum); err == nil {
				if os.WriteFile(*snapshot+".tmp", b, 0o644) == nil {
					os.Rename(*snapshot+".tmp", *snapshot)
				}
			}
		}
		if jf != nil {
			binary.LittleEndian.PutUint64(jb[:], uint64(i))
			jf.WriteAt(jb[:], 0)
		}
		if s := os.Getenv("DIGSIM_TEST_KILL_AT"); s != "" && s == fmt.Sprint(i) {
			// self-test of the harness: this worker is lost to its environment
			if p, err := os.FindProcess(os.Getpid()); err == nil {
				p.Kill()
				time.Sleep(time.Second)
			}
		}
		h := cd.Gen(*seed, i, *thorough)
		before := snapshotCatIDs()
		o := cd.Eval(h)
		after := snapshotCatIDs()
		sum.Done++
		fmt.Fprintf(lh, "%d %s\n", i, o.Fingerprint)
		sum.Ops += int64(o.Ops)
		sum.Execs += int64(o.Execs)
		sum.Twins += int64(o.Twins)
		sum.CensusOps += int64(o.CensusOps)
		sum.SimNs += o.SimNs
		for k := range sum.Faults {
			sum.Faults[k] += o.Faults[k]
		}
		for k, v := range o.Probes {
			sum.Probes[k] += v
		}
		if len(states) < 2_000_000 {
			for _, s := range o.States {
				states[s] = true
			}
		}
		if o.Divergence != "" {
			sum.Divergences++
			if sum.DivSample == "" {
				sum.DivSample = fmt.Sprintf("run %d %s", i, o.Divergence)
			}
		}
		if o.NonTrivial {
			nt[fp64(o.Fingerprint)] = true
			if len(sum.Samples) < 2 {
				sum.Samples = append(sum.Samples, h.Describe())
			}
		}
		seenHere := map[string]bool{}
		for _, v := range o.Viol {
			if seenHere[v.Class] {
				continue
			}
			seenHere[v.Class] = true
			sum.ClassCount[v.Class]++
			if shrunk[v.Class] {
				continue
			}
			shrunk[v.Class] = true
			min := h
			evalFrom := func(c *History) []Violation {
				restoreCatIDs(before)
				return cd.Eval(c).Viol
			}
			if !*noshrink {
				min = Shrink(h, *prop, v.Class, evalFrom, 3000)
			}
			mv := v
			for _, x := range evalFrom(min) {
				if x.Class == v.Class {
					mv = x
					break
				}
			}
			restoreCatIDs(after)
			sum.Violations = append(sum.Violations, WViolation{Run: i, Class: v.Class, Detail: mv.Detail, Op: mv.Op, OrigOps: len(h.Ops), History: min})
		}
	}
	finish()
	enc := json.NewEncoder(os.Stdout)
	if err := enc.Encode(sum); err != nil {
		fmt.Fprintln(os.Stderr, err)
		return 2
	}
	return 0
}

// ---------------------------------------------------------------- replay

func replayMain(args []string) int {
	fs := flag.NewFlagSet("replay", flag.ExitOnError)
	quiet := fs.Bool("quiet", false, "")
	fs.Parse(args)
	if fs.NArg() != 1 {
		fmt.Fprintln(os.Stderr, "usage: digsim replay <file>")
		return 2
	}
	debug.SetMaxStack(64 << 20)
	rf, err := readReplay(fs.Arg(0))
	if err != nil {
		fmt.Fprintln(os.Stderr, err)
		return 2
	}
	cd := Classes[rf.Property]
	if cd == nil {
		fmt.Fprintln(os.Stderr, "unknown property", rf.Property)
		return 2
	}
	if !*quiet {
		fmt.Printf("replaying %s class=%s (%d ops)\n", rf.Property, rf.Class, len(rf.History.Ops))
		for _, l := range rf.History.Describe() {
			fmt.Println("   ", l)
		}
	}
	if len(rf.PrefixRuns) > 0 {
		if !*quiet {
			fmt.Printf("first executing %d earlier histories of seed %d in this process\n", len(rf.PrefixRuns), rf.Seed)
		}
		for _, r := range rf.PrefixRuns {
			cd.Eval(cd.Gen(rf.Seed, r, rf.Thorough))
		}
	}
	o := cd.Eval(rf.History)
	if !*quiet {
		fmt.Println("log fingerprint", o.Fingerprint)
		if o.Real != nil && os.Getenv("DIGSIM_DUMP") != "" {
			for i, r := range o.Real.R.Res {
				fmt.Printf("op %d verdict=%s err=%q\n", i, r.Verdict, r.Facts.Text)
				if r.Dot != "" {
					fmt.Println(r.Dot)
				}
				for _, e := range o.Real.R.Events(i) {
					if e.Kind != EvAPICall && e.Kind != EvAPIRet {
						fmt.Println("    ", e.Canon())
					}
				}
			}
		}
	}
	hit := false
	for _, v := range o.Viol {
		if !*quiet {
			fmt.Printf("violation class=%s op=%d %s\n", v.Class, v.Op, v.Detail)
		}
		if v.Class == rf.Class {
			hit = true
		}
	}
	if hit {
		fmt.Printf("REPRODUCED property=%s class=%s\n", rf.Property, rf.Class)
		return 1
	}
	fmt.Printf("NOT-REPRODUCED property=%s class=%s\n", rf.Property, rf.Class)
	return 0
}

// ---------------------------------------------------------------- driver

type tierCfg struct {
	Runs    int64
	BudgetS int64
}

// tiers: fixed run counts (what a tier explores does not depend on speed);
// the wall-clock budget is only a safety net.
func tierFor(prop, tier string) tierCfg {
	q := map[string]int64{}
	base := int64(120_000)
	if v, ok := q[prop]; ok {
		base = v
	}
	if c := Classes[prop]; c != nil && c.QuickRuns > 0 {
		base = c.QuickRuns
	}
	if tier == "thorough" {
		return tierCfg{Runs: base * 12, BudgetS: 480}
	}
	return tierCfg{Runs: base, BudgetS: 180}
}

type KnownFinding struct {
	Property  string `json:"property"`
	Class     string `json:"class"`
	Predicate string `json:"predicate"`
	What      string `json:"what"`
}

type KnownFile struct {
	Findings []KnownFinding      `json:"findings"`
	Fixed    []map[string]string `json:"fixed"`
}

func loadKnown(verifDir string) *KnownFile {
	kf := &KnownFile{}
	b, err := os.ReadFile(filepath.Join(verifDir, "known_findings.json"))
	if err != nil {
		return kf
	}
	json.Unmarshal(b, kf)
	return kf
}

func selfExe() string {
	p, err := os.Executable()
	if err != nil {
		return os.Args[0]
	}
	return p
}

type workerResult struct {
	sum     *WSummary
	crashed bool
	crashAt int64
	stderr  string
	err     error
}

func runWorker(prop string, seed, from, to, step int64, thorough bool, journal string, deadline int64) workerResult {
	args := []string{"worker", "-prop", prop, "-seed", fmt.Sprint(seed), "-from", fmt.Sprint(from), "-to", fmt.Sprint(to),
		"-step", fmt.Sprint(step), "-journal", journal, "-deadline", fmt.Sprint(deadline), "-snapshot", journal + ".snap"}
	if thorough {
		args = append(args, "-thorough")
	}
	os.Remove(journal)
	os.Remove(journal + ".snap")
	cmd := exec.Command(selfExe(), args...)
	cmd.Env = append(os.Environ(), "GOMAXPROCS=2", "GOGC=200")
	var out, errb bytes.Buffer
	cmd.Stdout, cmd.Stderr = &out, &errb
	err := cmd.Run()
	if err == nil {
		var s WSummary
		if e := json.Unmarshal(out.Bytes(), &s); e != nil {
			return workerResult{err: fmt.Errorf("worker summary: %v", e), stderr: errb.String()}
		}
		return workerResult{sum: &s}
	}
	// died: where?
	jb, jerr := os.ReadFile(journal)
	if jerr != nil || len(jb) < 8 {
		return workerResult{err: fmt.Errorf("worker failed before its first run: %v", err), stderr: tail(errb.String(), 2000)}
	}
	res := workerResult{crashed: true, crashAt: int64(binary.LittleEndian.Uint64(jb[:8])), stderr: tail(errb.String(), 4000)}
	// what the worker had covered at its last snapshot still counts
	if sb, e := os.ReadFile(journal + ".snap"); e == nil {
		var s WSummary
		if json.Unmarshal(sb, &s) == nil {
			res.sum = &s
		}
	}
	return res
}

func tail(s string, n int) string {
	if len(s) > n {
		return s[:n/2] + "\n...\n" + s[len(s)-n/2:]
	}
	return s
}

// childReplay runs a replay file in a fresh process and reports whether the
// expected class reproduced (for proc-crash: whether the process died).
func childReplay(path string, crashClass bool) (bool, string) {
	cmd := exec.Command(selfExe(), "replay", "-quiet", path)
	cmd.Env = append(os.Environ(), "GOMAXPROCS=2")
	var out bytes.Buffer
	cmd.Stdout, cmd.Stderr = &out, &out
	done := make(chan error, 1)
	cmd.Start()
	go func() { done <- cmd.Wait() }()
	select {
	case err := <-done:
		if crashClass {
			if ee, ok := err.(*exec.ExitError); ok && ee.ExitCode() != 1 && ee.ExitCode() != 0 {
				return true, tail(out.String(), 1500)
			}
			return false, tail(out.String(), 1500)
		}
		if ee, ok := err.(*exec.ExitError); ok && ee.ExitCode() == 1 {
			return strings.Contains(out.String(), "REPRODUCED"), tail(out.String(), 1500)
		}
		return false, tail(out.String(), 1500)
	case <-time.After(240 * time.Second):
		cmd.Process.Kill()
		return crashClass, "watchdog: replay did not finish within 240s"
	}
}

type Evidence struct {
	PropertyID  string                 `json:"property_id"`
	Tier        string                 `json:"tier"`
	Seed        int64                  `json:"seed"`
	Level       string                 `json:"level"`
	Coverage    map[string]interface{} `json:"coverage"`
	Assumptions []string               `json:"assumptions"`
	WallS       float64                `json:"wall_s"`
	Violations  int                    `json:"violations"`
}

func runMain(args []string) int {
	fs := flag.NewFlagSet("run", flag.ExitOnError)
	prop := fs.String("prop", "", "")
	tier := fs.String("tier", "quick", "")
	seed := fs.Int64("seed", 1, "")
	workers := fs.Int("workers", 0, "")
	runs := fs.Int64("runs", 0, "")
	budget := fs.Int64("budget", 0, "")
	verifDir := fs.String("verif", "/verif", "")
	work := fs.String("work", "", "scratch dir")
	outDir := fs.String("out", "", "directory receiving evidence/ and replays/ (default: the -verif directory)")
	fs.Parse(args)
	if *outDir == "" {
		*outDir = *verifDir
	}
	cd := Classes[*prop]
	if cd == nil {
		fmt.Fprintln(os.Stderr, "unknown property", *prop)
		return 2
	}
	if v := os.Getenv("VERIF_SEED"); v != "" {
		if n, err := strconv.ParseInt(v, 10, 64); err == nil {
			*seed = n
		}
	}
	tc := tierFor(*prop, *tier)
	if *runs > 0 {
		tc.Runs = *runs
	}
	if v := os.Getenv("VERIF_BUDGET_S"); v != "" {
		if n, err := strconv.ParseInt(v, 10, 64); err == nil {
			tc.BudgetS = n
		}
	}
	if *budget > 0 {
		tc.BudgetS = *budget
	}
	W := *workers
	if W <= 0 {
		W = runtime.NumCPU()
		if W > 16 {
			W = 16
		}
	}
	if *work == "" {
		d, err := os.MkdirTemp("", "digsim-work-")
		if err != nil {
			fmt.Fprintln(os.Stderr, err)
			return 2
		}
		*work = d
		defer os.RemoveAll(d)
	}
	selftest := ""
	if *tier == "thorough" {
		// determinism proof for this property's class under this seed: the
		// same runs in 6 fresh processes at GOMAXPROCS 1, 4 and 16
		if rc := selftestMain([]string{"-props", *prop, "-seed", fmt.Sprint(*seed), "-n", "500"}); rc != 0 {
			fmt.Fprintln(os.Stderr, "HARNESS ERROR: the simulator is not deterministic on this class (this is not a property violation)")
			return 2
		}
		selftest = "500 runs x 6 processes (GOMAXPROCS 1, 4, 16): identical event logs"
	}

	start := time.Now()
	deadline := start.Unix() + tc.BudgetS
	thorough := *tier == "thorough"
	fmt.Printf("digsim property=%s tier=%s VERIF_SEED=%d runs=%d workers=%d budget=%ds\n", *prop, *tier, *seed, tc.Runs, W, tc.BudgetS)

	// corpus first: minimised histories of every finding ever made
	exit := 0
	total := &WSummary{Probes: map[string]int{}, ClassCount: map[string]int64{}}
	corpus, _ := filepath.Glob(filepath.Join(*verifDir, "corpus", *prop+"-*.json"))
	sort.Strings(corpus)
	for _, cf := range corpus {
		rf, err := readReplay(cf)
		if err != nil {
			fmt.Fprintln(os.Stderr, "corpus:", err)
			return 2
		}
		ok, _ := childReplay(cf, rf.Class == "proc-crash")
		if ok {
			total.Violations = append(total.Violations, WViolation{Run: -1, Class: rf.Class, Detail: rf.Detail + " (corpus " + filepath.Base(cf) + ")", Op: rf.Op, OrigOps: rf.OrigOps, History: rf.History})
			total.ClassCount[rf.Class]++
		}
	}
	corpusN := len(corpus)

	// workers take interleaved run indices: worker k runs k, k+W, k+2W, ...
	var mu sync.Mutex
	var wg sync.WaitGroup
	var harnessErr error
	var crashes []int64
	states := map[uint64]bool{}
	nt := map[uint64]bool{}
	var logHashes []string
	merge := func(s *WSummary) {
		mu.Lock()
		defer mu.Unlock()
		total.Done += s.Done
		total.Ops += s.Ops
		total.Execs += s.Execs
		total.Twins += s.Twins
		total.CensusOps += s.CensusOps
		total.SimNs += s.SimNs
		total.Divergences += s.Divergences
		if total.DivSample == "" {
			total.DivSample = s.DivSample
		}
		for k := range s.Faults {
			total.Faults[k] += s.Faults[k]
		}
		for k, v := range s.Probes {
			total.Probes[k] += v
		}
		for k, v := range s.ClassCount {
			total.ClassCount[k] += v
		}
		for _, x := range s.States {
			states[x] = true
		}
		for _, x := range s.NonTrivial {
			nt[x] = true
		}
		total.Violations = append(total.Violations, s.Violations...)
		if len(total.Samples) < 3 {
			total.Samples = append(total.Samples, s.Samples...)
		}
		logHashes = append(logHashes, s.LogHash)
	}
	for k := 0; k < W; k++ {
		wg.Add(1)
		go func(k int) {
			defer wg.Done()
			from := int64(k)
			journal := filepath.Join(*work, fmt.Sprintf("journal-%d", k))
			// a worker process handles at most recycle histories: reflect
			// caches every dynamic struct / func type for the life of a process
			const recycle = 12000
			for from < tc.Runs {
				to := from + recycle*int64(W)
				if to > tc.Runs {
					to = tc.Runs
				}
				r := runWorker(*prop, *seed, from, to, int64(W), thorough, journal, deadline)
				if r.err != nil {
					mu.Lock()
					harnessErr = fmt.Errorf("%v\n%s", r.err, r.stderr)
					mu.Unlock()
					return
				}
				if !r.crashed {
					merge(r.sum)
					if time.Now().Unix() > deadline {
						return
					}
					// next chunk of this worker's residue class (the worker may
					// have handed the rest of its chunk back early)
					if r.sum.Next > from && r.sum.Next < to {
						from = r.sum.Next
					} else {
						from = from + ((to-from+int64(W)-1)/int64(W))*int64(W)
					}
					continue
				}
				if r.sum != nil {
					merge(r.sum)
				}
				mu.Lock()
				crashes = append(crashes, r.crashAt)
				if len(crashes) == 1 {
					fmt.Printf("worker died in run %d: %s\n", r.crashAt, firstLine(strings.TrimSpace(r.stderr)))
				}
				mu.Unlock()
				// work of the dead worker before the crash is lost from the
				// counters (not from the verdict): restart after the crash
				from = r.crashAt + int64(W)
				if time.Now().Unix() > deadline || len(crashes) > 200 {
					return
				}
			}
		}(k)
	}
	wg.Wait()
	if harnessErr != nil {
		fmt.Fprintln(os.Stderr, "HARNESS ERROR:", harnessErr)
		return 2
	}
	wall := time.Since(start).Seconds()

	// process crashes are violations of their own class
	sort.Slice(crashes, func(a, b int) bool { return crashes[a] < crashes[b] })
	if len(crashes) > 0 {
		total.ClassCount["proc-crash"] += int64(len(crashes))
		h := cd.Gen(*seed, crashes[0], thorough)
		total.Violations = append(total.Violations, WViolation{Run: crashes[0], Class: "proc-crash", Detail: "the process died (fatal error) while executing this history", Op: -1, OrigOps: len(h.Ops), History: h})
	}

	// one replay per class: the smallest minimised history
	best := map[string]WViolation{}
	for _, v := range total.Violations {
		b, ok := best[v.Class]
		if !ok || len(v.History.Ops) < len(b.History.Ops) || (len(v.History.Ops) == len(b.History.Ops) && v.Run < b.Run) {
			best[v.Class] = v
		}
	}
	var classes []string
	for c := range best {
		classes = append(classes, c)
	}
	sort.Strings(classes)
	known := loadKnown(*verifDir)
	nviol := 0
	lostWorkers := 0
	var minimised []interface{}
	for _, cl := range classes {
		v := best[cl]
		h := v.History
		if cl == "proc-crash" && v.Run >= 0 {
			// minimise only what does kill a fresh process
			pre := filepath.Join(*work, "crash-pre.json")
			writeJSON(pre, &ReplayFile{Property: *prop, Class: cl, History: h})
			if dies, _ := childReplay(pre, true); dies {
				h = shrinkCrash(h, *prop, *work)
			}
			os.Remove(pre)
		}
		rf := &ReplayFile{Property: *prop, Class: cl, Detail: v.Detail, Op: v.Op, OrigOps: v.OrigOps, History: h, Readable: h.Describe()}
		path := filepath.Join(*outDir, "replays", fmt.Sprintf("%s-%s-seed%d-run%d.json", *prop, cl, *seed, v.Run))
		if err := writeJSON(path, rf); err != nil {
			fmt.Fprintln(os.Stderr, "HARNESS ERROR:", err)
			return 2
		}
		ok, out := childReplay(path, cl == "proc-crash")
		if !ok && cl == "proc-crash" {
			// A worker died but the history it was executing does not kill a
			// fresh process (tried three times): the worker was lost to its
			// environment (memory pressure, a signal), not to the code under
			// test. Counted in the evidence, not a finding and not an error.
			again := 0
			for a := 0; a < 2 && again == 0; a++ {
				if ok2, _ := childReplay(path, true); ok2 {
					again++
				}
			}
			if again == 0 {
				fmt.Printf("warning: %d worker process(es) lost (first in run %d); the history does not reproduce a crash: %s\n", total.ClassCount[cl], v.Run, firstLine(strings.TrimSpace(out)))
				lostWorkers = int(total.ClassCount[cl])
				delete(total.ClassCount, cl)
				os.Remove(path)
				continue
			}
			ok = true
		}
		if !ok {
			// The simulator is deterministic; dig need not be (Go map iteration
			// order inside dig is not controllable, DESIGN §1). A violation that
			// depends on it reproduces only in a share of replays: try again
			// before calling it harness trouble.
			hits := 0
			const again = 12
			for a := 0; a < again; a++ {
				if ok2, _ := childReplay(path, cl == "proc-crash"); ok2 {
					hits++
				}
			}
			if hits == 0 && v.Run >= 0 && cl != "proc-crash" {
				// Last resort: does it show when the histories the same worker
				// process had executed before are executed first? Then some
				// state outlives the container (a process-wide cache in the
				// code under test, or the cross-container identity rule of C18).
				const recycle = 12000
				k := v.Run % int64(W)
				start := k + ((v.Run-k)/(recycle*int64(W)))*(recycle*int64(W))
				var pred []int64
				for j := start; j < v.Run; j += int64(W) {
					pred = append(pred, j)
				}
				// first with the minimised history; it was minimised inside a
				// process whose state the candidates themselves kept changing,
				// so if that fails, with the history as it was generated
				for _, hist := range []*History{h, cd.Gen(*seed, v.Run, thorough)} {
					rf.History, rf.Readable = hist, hist.Describe()
					for _, n := range []int{8, 64, 512, 4096, len(pred)} {
						if n > len(pred) {
							n = len(pred)
						}
						rf.PrefixRuns, rf.Seed, rf.Thorough = pred[len(pred)-n:], *seed, thorough
						writeJSON(path, rf)
						if ok3, _ := childReplay(path, false); ok3 {
							hits = -n
							break
						}
						if n == len(pred) {
							break
						}
					}
					if hits < 0 {
						break
					}
				}
				if hits < 0 {
					v.Detail += fmt.Sprintf(" [shows only after %d earlier histories were executed in the same process: it relates different containers (process-wide state in the code under test, or the rule of C18 that a function keeps its ID from one container to the next)]", -hits)
					rf.Detail = v.Detail
					writeJSON(path, rf)
				}
			}
			if hits == 0 {
				fmt.Fprintf(os.Stderr, "HARNESS ERROR: violation class %s of run %d does not replay in a fresh process:\n%s\n", cl, v.Run, out)
				return 2
			}
			if hits > 0 {
				v.Detail += fmt.Sprintf(" [the code under test is not deterministic on this history: reproduced in %d of %d further replays]", hits, again)
				rf.Detail = v.Detail
				writeJSON(path, rf)
			}
		}
		minimised = append(minimised, map[string]interface{}{"class": cl, "run": v.Run, "orig_ops": v.OrigOps, "min_ops": len(h.Ops), "detail": v.Detail, "history": h.Describe(), "count": total.ClassCount[cl]})
		if kf := matchKnown(known, *prop, cl, h); kf != nil {
			fmt.Printf("KNOWN-FINDING: property=%s %s [class=%s, %d histories, replay=%s]\n", *prop, kf.What, cl, total.ClassCount[cl], path)
			continue
		}
		if strings.HasPrefix(cl, "harness-") {
			// the machinery caught itself misbehaving: trouble, not a finding
			fmt.Fprintf(os.Stderr, "HARNESS ERROR: %s (%d histories, replay=%s): %s\n", cl, total.ClassCount[cl], path, v.Detail)
			if exit == 0 {
				exit = 2
			}
			continue
		}
		nviol++
		fmt.Printf("VIOLATION property=%s replay=%s\n", *prop, path)
		fmt.Printf("  class=%s histories=%d run=%d minimised %d -> %d ops: %s\n", cl, total.ClassCount[cl], v.Run, v.OrigOps, len(h.Ops), v.Detail)
		for _, l := range h.Describe() {
			fmt.Println("     ", l)
		}
		exit = 1
	}

	// evidence
	var zero []string
	probeNames := make([]string, 0, len(total.Probes))
	for k := range total.Probes {
		probeNames = append(probeNames, k)
	}
	sort.Strings(probeNames)
	for _, want := range cd.WantProbes {
		if total.Probes[want] == 0 {
			zero = append(zero, want)
		}
	}
	if len(zero) > 0 {
		fmt.Printf("warning: reach probes at zero: %v\n", zero)
	}
	sort.Strings(logHashes)
	lh := sha256.Sum256([]byte(strings.Join(logHashes, "\n")))
	samples := []interface{}{}
	for _, s := range total.Samples {
		samples = append(samples, s)
	}
	if len(samples) == 0 {
		h := cd.Gen(*seed, 0, thorough)
		samples = append(samples, h.Describe())
	}
	perHour := func(n int64) int64 {
		if wall <= 0 {
			return 0
		}
		return int64(float64(n) / wall * 3600)
	}
	ev := Evidence{PropertyID: *prop, Tier: *tier, Seed: *seed, Level: "exploration", WallS: wall, Violations: nviol,
		Coverage: map[string]interface{}{
			"evaluations":                     total.Done,
			"distinct_nontrivial":             len(nt),
			"rule":                            "histories generated from VERIF_SEED by the seeded generator of this property's run class (see DESIGN.md §4/§5); distinct = distinct SHA-256 of the complete event log; non-trivial = " + cd.Rule,
			"samples":                         samples,
			"runs_requested":                  tc.Runs,
			"corpus_replayed":                 corpusN,
			"runs_per_hour":                   perHour(total.Done),
			"seeds_per_hour":                  perHour(total.Done),
			"api_calls":                       total.Ops,
			"user_function_execs":             total.Execs,
			"simulated_time_s":                float64(total.SimNs) / 1e9,
			"faults_fired":                    map[string]int{"err": total.Faults[FaultErr], "err+partial": total.Faults[FaultErrPartial], "panic": total.Faults[FaultPanic], "callback-panic": total.Faults[FaultCBPanic]},
			"twin_runs":                       total.Twins,
			"census_probes":                   total.CensusOps,
			"distinct_model_states":           len(states),
			"probes":                          total.Probes,
			"probes_at_zero":                  zero,
			"foreign_divergences":             total.Divergences,
			"divergence_sample":               total.DivSample,
			"worker_crashes":                  len(crashes),
			"workers_lost_to_the_environment": lostWorkers,
			"violation_classes":               total.ClassCount,
			"minimised_violations":            minimised,
			"event_log_digest":                fmt.Sprintf("%x", lh[:]),
			"workers":                         W,
			"determinism_selftest":            selftest,
			"budget_s":                        tc.BudgetS,
			"stopped_by_budget":               total.Done < tc.Runs,
			"components_real":                 []string{"all of go.uber.org/dig (built from /repo with -tags verif)"},
			"components_stubbed":              []string{"user functions (constructors, decorators, invoked functions, callbacks): simulated environment", "clock: digclock.Mock advanced by the stubs", "value-group shuffle PRNG: seeded per scope"},
		},
		Assumptions: []string{
			"seeded sampling, not enumeration: a clean batch is evidence, not proof",
			"single goroutine: dig documents no goroutine safety and starts none",
			"bounds of the generator (types, scopes, ops, nesting) as in DESIGN.md §4; nothing is claimed outside them",
		},
	}
	if err := writeJSON(filepath.Join(*outDir, "evidence", *prop+".json"), ev); err != nil {
		fmt.Fprintln(os.Stderr, "HARNESS ERROR:", err)
		return 2
	}
	fmt.Printf("done: %d histories (%d distinct non-trivial), %d api calls, %d user-function executions, faults fired %v, %d model states, %d divergences, %.1fs\n",
		total.Done, len(nt), total.Ops, total.Execs, total.Faults[1:], len(states), total.Divergences, wall)
	return exit
}

// shrinkCrash minimises a process-killing history with one child process per
// candidate.
func shrinkCrash(h *History, prop, work string) *History {
	n := 0
	eval := func(c *History) []Violation {
		n++
		path := filepath.Join(work, fmt.Sprintf("crash-cand-%d.json", n))
		writeJSON(path, &ReplayFile{Property: prop, Class: "proc-crash", History: c})
		defer os.Remove(path)
		ok, _ := childReplay(path, true)
		if ok {
			return []Violation{{Props: []string{prop}, Class: "proc-crash"}}
		}
		return nil
	}
	return Shrink(h, prop, "proc-crash", eval, 400)
}

func matchKnown(k *KnownFile, prop, class string, h *History) *KnownFinding {
	for i := range k.Findings {
		f := &k.Findings[i]
		if f.Property != prop || f.Class != class {
			continue
		}
		p, ok := Predicates[f.Predicate]
		if !ok {
			continue
		}
		if p(h) {
			return f
		}
	}
	return nil
}

// Predicates are the trigger predicates known-finding entries refer to; they
// are evaluated on the minimised replay.
var Predicates = map[string]func(h *History) bool{}

func Main(cmd string, args []string) int {
	switch cmd {
	case "run":
		return runMain(args)
	case "worker":
		return workerMain(args)
	case "replay":
		return replayMain(args)
	case "selftest":
		return selftestMain(args)
	case "try":
		return tryMain(args)
	case "gencat":
		return gencatMain(args)
	}
	fmt.Fprintln(os.Stderr, "unknown command", cmd)
	return 2
}

func tryMain(args []string) int {
	fs := flag.NewFlagSet("try", flag.ExitOnError)
	prop := fs.String("prop", "C07", "")
	seed := fs.Int64("seed", 1, "")
	n := fs.Int64("n", 1000, "")
	show := fs.Int("show", 3, "")
	shrink := fs.Bool("shrink", true, "")
	thorough := fs.Bool("thorough", false, "")
	dumpTag := fs.String("dumptag", "", "print the first -show histories holding an op with this tag")
	fs.Parse(args)
	cd := Classes[*prop]
	classes := map[string]int{}
	shown := map[string]int{}
	nt := 0
	probes := map[string]int{}
	t0 := time.Now()
	for i := int64(0); i < *n; i++ {
		h := cd.Gen(*seed, i, *thorough)
		o := cd.Eval(h)
		if o.NonTrivial {
			nt++
		}
		for k, v := range o.Probes {
			probes[k] += v
		}
		if *dumpTag != "" && shown["dump"] < *show {
			for _, op := range h.Ops {
				if op.Tag == *dumpTag {
					shown["dump"]++
					fmt.Printf("--- run %d (tag %s) probes %v\n", i, *dumpTag, o.Probes)
					for _, l := range h.Describe() {
						fmt.Println("   ", l)
					}
					break
				}
			}
		}
		if o.Divergence != "" {
			classes["DIVERGENCE"]++
			if shown["DIVERGENCE"] < *show {
				shown["DIVERGENCE"]++
				fmt.Printf("--- run %d DIVERGENCE %s\n", i, o.Divergence)
			}
		}
		seen := map[string]bool{}
		for _, v := range o.Viol {
			if seen[v.Class] {
				continue
			}
			seen[v.Class] = true
			classes[v.Class]++
			if shown[v.Class] < *show {
				shown[v.Class]++
				m := h
				if *shrink {
					m = Shrink(h, *prop, v.Class, func(c *History) []Violation { return cd.Eval(c).Viol }, 3000)
				}
				fmt.Printf("--- run %d: %v %s (%d -> %d ops)\n", i, v.Props, v.Class, len(h.Ops), len(m.Ops))
				for _, x := range cd.Eval(m).Viol {
					if x.Class == v.Class {
						fmt.Printf("    op %d: %s\n", x.Op, x.Detail)
						break
					}
				}
				for _, l := range m.Describe() {
					fmt.Println("   ", l)
				}
			}
		}
	}
	b, _ := json.MarshalIndent(map[string]interface{}{"classes": classes, "nontrivial": nt, "probes": probes, "per_s": float64(*n) / time.Since(t0).Seconds()}, "", " ")
	fmt.Println(string(b))
	return 0
}
