package sim

import "fmt"

// Mal describes one value from the malformed-input grammar (see malformed
// builders in malbuild.go). It is plain data so that it can be replayed.
type Mal struct {
	API  string `json:"api"`  // provide | decorate | invoke
	Kind string `json:"kind"` // grammar production
	Arg  int    `json:"arg,omitempty"`
	Str  string `json:"str,omitempty"`
}

func (m *Mal) String() string {
	if m == nil {
		return "<nil>"
	}
	if m.Kind == "random-sig" {
		return fmt.Sprintf("%s(%s %d %s)", m.API, m.Kind, m.Arg, sigString(m))
	}
	return fmt.Sprintf("%s(%s %d %q)", m.API, m.Kind, m.Arg, m.Str)
}
