package sim

import (
	"flag"
	"fmt"
	"os"
	"os/exec"
	"strings"
)

// selftest: the determinism proof. The same (property, VERIF_SEED, run range)
// is executed in several fresh processes under different GOMAXPROCS; the hash
// over all event-log fingerprints must be identical.
func selftestMain(args []string) int {
	fs := flag.NewFlagSet("selftest", flag.ExitOnError)
	n := fs.Int64("n", 300, "runs per property")
	reps := fs.Int("reps", 2, "processes per GOMAXPROCS value")
	props := fs.String("props", "", "comma separated (default all)")
	seed := fs.Int64("seed", 1, "")
	fs.Parse(args)
	var list []string
	if *props != "" {
		list = strings.Split(*props, ",")
	} else {
		for p := range Classes {
			list = append(list, p)
		}
	}
	sortStrings(list)
	bad := 0
	procs := 0
	for _, p := range list {
		ref := ""
		for _, gmp := range []string{"1", "4", "16"} {
			for r := 0; r < *reps; r++ {
				cmd := exec.Command(selfExe(), "worker", "-prop", p, "-seed", fmt.Sprint(*seed), "-from", "0", "-to", fmt.Sprint(*n), "-noshrink")
				cmd.Env = append(os.Environ(), "GOMAXPROCS="+gmp)
				out, err := cmd.Output()
				procs++
				if err != nil {
					fmt.Printf("selftest %s: worker failed: %v\n", p, err)
					bad++
					continue
				}
				i := strings.Index(string(out), `"log_hash":"`)
				if i < 0 {
					bad++
					continue
				}
				h := string(out)[i+12 : i+12+64]
				if ref == "" {
					ref = h
				} else if h != ref {
					fmt.Printf("selftest %s: NONDETERMINISM GOMAXPROCS=%s rep=%d: %s != %s\n", p, gmp, r, h, ref)
					bad++
				}
			}
		}
		fmt.Printf("selftest %s: %d runs x %d processes identical=%v digest=%s\n", p, *n, 3**reps, bad == 0, ref[:16])
	}
	if bad > 0 {
		fmt.Printf("selftest FAILED: %d mismatches over %d processes\n", bad, procs)
		return 2
	}
	fmt.Printf("selftest ok: %d processes\n", procs)
	return 0
}

func sortStrings(s []string) {
	for i := 1; i < len(s); i++ {
		for j := i; j > 0 && s[j] < s[j-1]; j-- {
			s[j], s[j-1] = s[j-1], s[j]
		}
	}
}
