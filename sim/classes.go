package sim

import "fmt"

// Outcome is what evaluating one history for one property yields.
type Outcome struct {
	Viol        []Violation
	NonTrivial  bool
	Probes      map[string]int
	Fingerprint string
	Faults      [5]int
	SimNs       int64
	States      []uint64
	Ops         int
	Execs       int
	Twins       int
	CensusOps   int
	Divergence  string
	Real        *Checked `json:"-"`
}

type ClassDef struct {
	Prop       string
	Gen        func(seed, run int64, thorough bool) *History
	Eval       func(h *History) *Outcome
	Rule       string // what makes a history non-trivial for this property
	QuickRuns  int64
	WantProbes []string
}

var Classes = map[string]*ClassDef{}

func register(c *ClassDef) { Classes[c.Prop] = c }

// outcomeOf packages a checked run for property prop.
func outcomeOf(c *Checked, prop string) *Outcome {
	o := &Outcome{Probes: c.Probes, Fingerprint: c.R.W.Fingerprint(), Faults: c.R.W.FaultsFired, SimNs: c.R.W.SimT,
		Ops: len(c.H.Ops), Real: c}
	for _, v := range c.Viol {
		if v.Has(prop) || v.Has("HARNESS") {
			o.Viol = append(o.Viol, v)
		}
	}
	for s := range c.States {
		o.States = append(o.States, s)
	}
	for _, n := range c.R.W.Execs {
		o.Execs += n
	}
	if c.Diverged >= 0 {
		o.Divergence = fmt.Sprintf("op %d: %s", c.Diverged, c.DivNote)
	}
	return o
}

func evalSimple(prop string, nontrivial func(c *Checked) bool) func(h *History) *Outcome {
	return func(h *History) *Outcome {
		c := RunChecked(h)
		o := outcomeOf(c, prop)
		o.NonTrivial = nontrivial(c)
		return o
	}
}

// genGeneric: random programs with retries, tweaked per property.
func genGeneric(prop string, tweak func(g *genCtx), mix Mix) func(seed, run int64, thorough bool) *History {
	return func(seed, run int64, thorough bool) *History {
		g := newGen(prop, seed, run, thorough)
		if tweak != nil {
			tweak(g)
		}
		mix := mix
		if g.ft.Huge {
			// a long, registration-heavy history: dependency graphs with well
			// over 64 nodes per scope
			g.ft.MaxOps = g.r.Range(150, 260)
			mix = Mix{Scope: 1, Provide: 14, Decorate: mix.Decorate, Invoke: 3, VisStr: mix.VisStr}
			g.ft.NT = 8
			if len(g.ft.Names) == 0 {
				g.ft.Names = []string{"n1", "n2"}
			}
			g.ft.Objects = true
			g.ft.PDup = 0.02
		}
		if g.ft.Catalog {
			g.h.Cfg.ValMask, g.h.Cfg.AltMask = 0, 0 // declared functions have fixed Go types
		}
		// a few scopes and providers first so that later ops have something to use
		warm := g.r.Range(2, 6)
		for i := 0; i < warm && len(g.h.Ops) < g.ft.MaxOps; i++ {
			if g.r.P(0.25) {
				g.opScope()
			} else {
				g.opProvide(g.pickScope())
			}
		}
		if g.tmpl == nil && g.ft.DeepChains {
			switch x := g.r.Intn(100); {
			case x < 4:
				g.tmpl = (*genCtx).tmplDeepChain
			case x < 9:
				g.tmpl = (*genCtx).tmplHeal
			case x < 11:
				// a cycle no registration-time check can see, met while resolving
				g.tmpl = (*genCtx).tmplCrossSiblingCycle
			case x < 14:
				g.tmpl = (*genCtx).tmplDeepSiblingGroups
			}
		}
		if g.tmpl != nil {
			// templates build the in-flight state a property needs (DESIGN §4.1)
			half := len(g.h.Ops) + (g.ft.MaxOps-len(g.h.Ops))/2
			g.randomOps(half, mix)
			g.tmpl(g)
		}
		g.randomOps(g.ft.MaxOps, mix)
		g.genFaults()
		return g.h
	}
}

var defaultMix = Mix{Scope: 2, Provide: 10, Decorate: 3, Invoke: 8, VisStr: 1}

func init() {
	register(&ClassDef{
		Prop: "C07",
		Rule: "history in which an injected fault fired in a constructor or decorator, the identical Invoke was issued again right after, and the failed function was re-executed and then succeeded",
		Gen: genGeneric("C07", func(g *genCtx) {
			g.ft.DeepChains = true
			g.ft.FaultRate = []float64{0.1, 0.25, 0.4}[g.r.Intn(3)]
			g.ft.FaultInv = 0.05
			g.ft.PRetry = 0.6
			if g.r.Intn(3) == 0 {
				g.ft.Callbacks, g.ft.FaultCB = true, 0.15
			}
		}, defaultMix),
		Eval: evalSimple("C07", func(c *Checked) bool { return c.Probes["retry_healed"] > 0 }),
	})
	register(&ClassDef{
		Prop: "C02",
		Rule: "history in which some function's result was consumed at least 3 times over at least 2 Invokes, at least one of them after a failed Invoke",
		Gen: genGeneric("C02", func(g *genCtx) {
			g.ft.DeepChains = true
			g.ft.FaultRate = []float64{0, 0.05, 0.25}[g.r.Intn(3)]
			g.ft.FaultInv = 0.1
			g.ft.PRetry = 0.5
			g.ft.PAvail = 0.95
			g.ft.PReenter = []float64{0, 0, 0.1}[g.r.Intn(3)]
			if g.r.Intn(3) == 0 {
				g.ft.Callbacks, g.ft.FaultCB = true, 0.15
			}
		}, Mix{Scope: 2, Provide: 8, Decorate: 3, Invoke: 12, VisStr: 0}),
		Eval: evalSimple("C02", func(c *Checked) bool { return consumedOften(c) }),
	})
}

// consumedOften: some token was delivered >= 3 times over >= 2 ops, one of
// them after a failed Invoke.
func consumedOften(c *Checked) bool {
	type st struct {
		n        int
		ops      map[int]bool
		afterErr bool
	}
	use := map[int64]*st{}
	failedBefore := false
	for i, r := range c.R.Res {
		if c.H.Ops[i].Kind == OpInvoke {
			for _, e := range c.R.Events(i) {
				if e.Kind != EvEnter {
					continue
				}
				for _, a := range e.Args {
					for _, s := range a.Serials {
						u := use[s]
						if u == nil {
							u = &st{ops: map[int]bool{}}
							use[s] = u
						}
						u.n++
						u.ops[i] = true
						if failedBefore {
							u.afterErr = true
						}
					}
				}
			}
			if r.Verdict != VOK {
				failedBefore = true
			}
		}
	}
	for _, u := range use {
		if u.n >= 3 && len(u.ops) >= 2 && u.afterErr {
			return true
		}
	}
	return false
}

func hasProbe(names ...string) func(c *Checked) bool {
	return func(c *Checked) bool {
		for _, n := range names {
			if c.Probes[n] == 0 {
				return false
			}
		}
		return true
	}
}

func init() {
	noFaults := func(g *genCtx) { g.ft.FaultRate, g.ft.FaultInv = 0, 0 }
	someFaults := func(g *genCtx) {
		g.ft.FaultRate = []float64{0, 0, 0.05, 0.25}[g.r.Intn(4)]
		g.ft.FaultInv = g.ft.FaultRate / 2
	}
	register(&ClassDef{
		Prop: "C01",
		Rule: "history with a successful Invoke that executed at least 3 functions and resolved at least one argument across a scope boundary",
		Gen: genGeneric("C01", func(g *genCtx) {
			g.ft.DeepChains = true
			someFaults(g)
			g.ft.PAvail = 0.95
			g.ft.PReenter = []float64{0, 0, 0.08}[g.r.Intn(3)]
			if g.ft.MaxScopes < 2 {
				g.ft.MaxScopes = 2
			}
			if g.ft.Decorators && g.r.Intn(6) == 0 {
				g.tmpl = (*genCtx).tmplDecorateFirst
			}
		}, Mix{Scope: 3, Provide: 10, Decorate: 3, Invoke: 8, VisStr: 0}),
		Eval:       evalSimple("C01", hasProbe("executed>=3_ok", "arg_cross_scope")),
		WantProbes: []string{"executed>=3_ok", "arg_cross_scope", "arg_from_decorator", "optional_over_gap", "group_feeders>=3"},
	})
	register(&ClassDef{
		Prop: "C03",
		Rule: "history with an Invoke whose dependency closure has at least 2 functions while at least 2 registered functions in at least 2 scopes are outside it (bystanders)",
		Gen: genGeneric("C03", func(g *genCtx) {
			g.ft.DeepChains = true
			noFaults(g)
			if g.r.Intn(3) == 0 {
				// laziness must also hold around failures: what a failed
				// Invoke leaves behind must not make later Invokes skip work
				g.ft.FaultRate, g.ft.PRetry = 0.15, 0.5
			}
			g.ft.PAvail = 0.9
			if g.ft.MaxScopes < 2 {
				g.ft.MaxScopes = 2
			}
		}, Mix{Scope: 3, Provide: 12, Decorate: 3, Invoke: 6, VisStr: 2}),
		Eval:       evalSimple("C03", hasProbe("closure>=2", "bystanders>=2")),
		WantProbes: []string{"closure>=2", "bystanders>=2", "soft_nonempty"},
	})
	register(&ClassDef{
		Prop: "C04",
		Rule: "history with an Invoke over a gap: a missing provider at depth >= 2 of the closure, or an optional dependency whose provider is unavailable",
		Gen: genGeneric("C04", func(g *genCtx) {
			g.ft.DeepChains = true
			someFaults(g)
			g.ft.PAvail = []float64{0.6, 0.8, 0.95}[g.r.Intn(3)]
			g.ft.Optional, g.ft.Objects = true, true
			if g.r.Intn(5) == 0 {
				// what a panicking callback leaves behind must not make an
				// available dependency unavailable later
				g.ft.Callbacks, g.ft.FaultCB, g.ft.PRetry = true, 0.15, 0.5
			}
		}, Mix{Scope: 2, Provide: 10, Decorate: 2, Invoke: 9, VisStr: 0}),
		Eval: evalSimple("C04", func(c *Checked) bool {
			return c.Probes["optional_over_gap"] > 0 || c.Probes["missing_deep"] > 0
		}),
		WantProbes: []string{"optional_over_gap", "missing_deep", "invoke_available", "invoke_missing_dependency"},
	})
	register(&ClassDef{
		Prop: "C08",
		Rule: "history over at least 3 scopes with a shadowed key (provided in two enclosing scopes) and a scope created after a Provide to one of its ancestors, with at least one argument resolved across a scope boundary",
		Gen: genGeneric("C08", func(g *genCtx) {
			g.ft.DeepChains = true
			noFaults(g)
			g.ft.Decorators = false
			g.ft.MaxScopes = g.r.Range(3, 7)
			g.ft.MaxDepth = g.r.Range(1, 4)
			g.ft.DeepBias = g.r.P(0.3)
			g.ft.Export = g.r.P(0.7)
			g.ft.PAvail = 0.9
			g.ft.NT = g.r.Range(3, 5)
		}, Mix{Scope: 4, Provide: 10, Decorate: 0, Invoke: 8, VisStr: 0}),
		Eval: evalSimple("C08", func(c *Checked) bool {
			return len(c.M.S) >= 3 && c.Probes["nearest_shadowed"] > 0 && c.Probes["scope_after_provide"] > 0 && c.Probes["arg_cross_scope"] > 0
		}),
		WantProbes: []string{"nearest_shadowed", "scope_after_provide", "arg_cross_scope", "export_seen_from_sibling"},
	})
	register(&ClassDef{
		Prop: "C09",
		Rule: "history in which one type is provided under at least two different keys (unnamed / named / grouped / As interface) and at least one duplicate registration was attempted",
		Gen: genGeneric("C09", func(g *genCtx) {
			noFaults(g)
			g.ft.NT = g.r.Range(2, 4)
			g.ft.Names = []string{"n1", "n2"}
			g.ft.Groups = []string{"g1", "g2"}
			if g.r.P(0.3) {
				g.ft.Names = append(g.ft.Names, "n1 ", "n1,x")
				g.ft.Groups = append(g.ft.Groups, "g1 ")
			}
			g.ft.As = true
			g.ft.Objects = true
			g.ft.PDup = 0.4
		}, Mix{Scope: 2, Provide: 12, Decorate: 1, Invoke: 8, VisStr: 0}),
		Eval:       evalSimple("C09", hasProbe("type_under_two_keys", "duplicate_attempted")),
		WantProbes: []string{"type_under_two_keys", "duplicate_attempted", "as_value_delivered"},
	})
	register(&ClassDef{
		Prop: "C10",
		Rule: "history in which a non-soft group parameter received members of at least 3 feeders, or a feeder was added between two requests of the same group",
		Gen: genGeneric("C10", func(g *genCtx) {
			someFaults(g)
			g.ft.Groups = []string{"g1", "g2"}[:g.r.Range(1, 2)]
			if g.r.P(0.25) {
				g.ft.Groups = append(g.ft.Groups, "g1 ") // differs from "g1" only in a blank
			}
			g.ft.Objects = true
			g.ft.Flatten = true
			g.ft.NT = g.r.Range(2, 4)
			g.ft.GroupDecs = g.r.P(0.2)
			// rejected feeders (duplicates of their other results, cycles in
			// the target or only in a descendant scope) must not feed
			g.ft.Wild = []float64{0, 0.1, 0.3}[g.r.Intn(3)]
			g.ft.PDup = 0.2
			switch g.r.Intn(8) {
			case 0, 1:
				g.tmpl = (*genCtx).tmplDescendantCycleGroup
			case 2, 3:
				g.tmpl = (*genCtx).tmplSliceMembers
			}
		}, Mix{Scope: 3, Provide: 12, Decorate: 1, Invoke: 9, VisStr: 0}),
		Eval: evalSimple("C10", func(c *Checked) bool {
			return c.Probes["group_feeders>=3"] > 0 || c.Probes["feeder_added_between"] > 0
		}),
		WantProbes: []string{"group_feeders>=3", "group_empty", "feeder_added_between"},
	})
	register(&ClassDef{
		Prop: "C11",
		Rule: "history in which a soft group parameter was delivered non-empty, or next to a field of the same object whose provider feeds the group",
		Gen: genGeneric("C11", func(g *genCtx) {
			noFaults(g)
			if g.r.Intn(4) == 0 {
				// feeders that failed (and were or were not retried) contribute nothing
				g.ft.FaultRate, g.ft.PRetry = 0.15, 0.4
			}
			g.ft.Groups = []string{"g1", "g2"}[:g.r.Range(1, 2)]
			if g.r.P(0.25) {
				g.ft.Groups = append(g.ft.Groups, "g1 ") // differs from "g1" only in a blank
			}
			g.ft.Objects, g.ft.Soft = true, true
			g.ft.GroupDecs = false
			g.ft.NT = g.r.Range(2, 4)
			switch g.r.Intn(6) {
			case 0, 1:
				g.tmpl = (*genCtx).tmplSoftMix
			case 2:
				g.tmpl = (*genCtx).tmplSliceMembers
			}
		}, Mix{Scope: 2, Provide: 12, Decorate: 1, Invoke: 10, VisStr: 0}),
		Eval: evalSimple("C11", func(c *Checked) bool {
			return c.Probes["soft_nonempty"] > 0 || c.Probes["soft_sibling_field_feeder"] > 0
		}),
		WantProbes: []string{"soft_nonempty", "soft_sibling_field_feeder"},
	})
	register(&ClassDef{
		Prop: "C12",
		Rule: "history in which an argument was produced by a decorator registered in an ancestor of the consumer's scope, or by a decorator whose own input came from another decorator",
		Gen: genGeneric("C12", func(g *genCtx) {
			g.ft.DeepChains = true
			someFaults(g)
			g.ft.Decorators = true
			g.ft.GroupDecs = g.r.P(0.6)
			g.ft.PAvail = 0.95
			g.ft.NT = g.r.Range(2, 5)
			g.ft.NamedSlice = g.r.P(0.3)
			g.ft.PReenter = []float64{0, 0, 0.1}[g.r.Intn(3)]
			if g.r.Intn(4) == 0 {
				g.tmpl = (*genCtx).tmplDecorateFirst
			}
		}, Mix{Scope: 3, Provide: 8, Decorate: 7, Invoke: 9, VisStr: 0}),
		Eval: evalSimple("C12", func(c *Checked) bool {
			return c.Probes["deco_from_ancestor_scope"] > 0 || c.Probes["deco_nested"] > 0
		}),
		WantProbes: []string{"deco_from_ancestor_scope", "deco_nested", "group_decorated", "arg_from_decorator"},
	})
	register(&ClassDef{
		Prop: "C13",
		Rule: "history in which at least two different failure sources surfaced (injected error / injected panic in a dependency or in the invoked function / a dig-originated failure)",
		Gen: genGeneric("C13", func(g *genCtx) {
			g.ft.DeepChains = true
			g.ft.FaultRate = []float64{0.1, 0.25, 0.4}[g.r.Intn(3)]
			g.ft.FaultInv = 0.3
			g.ft.PAvail = 0.85
			g.ft.Wild = []float64{0, 0.1}[g.r.Intn(2)]
			// dig's own invalid-input rejections, including those that wrap a
			// foreign error inside dig's chain (malformed tag values)
			g.ft.MalRate = []float64{0, 0.1, 0.25}[g.r.Intn(3)]
			g.ft.MalTagsOnly = g.r.P(0.5)
			if g.r.Intn(4) == 0 {
				g.ft.Callbacks, g.ft.FaultCB, g.ft.PRetry = true, 0.15, 0.5
			}
		}, defaultMix),
		Eval: evalSimple("C13", func(c *Checked) bool {
			n := 0
			for _, p := range []string{"err_root_injected", "err_root_panic", "err_dig_originated", "invoke_fn_error", "invoke_fn_panic"} {
				if c.Probes[p] > 0 {
					n++
				}
			}
			return n >= 2
		}),
		WantProbes: []string{"err_root_injected", "err_root_panic", "err_dig_originated", "invoke_fn_error", "invoke_fn_panic"},
	})
	register(&ClassDef{
		Prop: "C20",
		Rule: "history in which a callback fired after a failing execution or with a non-zero simulated runtime while a dependency also spent simulated time",
		Gen: genGeneric("C20", func(g *genCtx) {
			g.ft.DeepChains = true
			g.ft.FaultRate = []float64{0, 0.1, 0.3}[g.r.Intn(3)]
			g.ft.Callbacks, g.ft.Slow = true, true
			g.ft.FaultCB = []float64{0, 0, 0.1}[g.r.Intn(3)]
			g.ft.PAvail = 0.95
			if g.r.P(0.5) {
				// declared functions: the callback Name can be checked
				g.ft.Catalog = true
				g.ft.NT = 6
				g.ft.Names, g.ft.Groups = []string{"n1", "n2"}, []string{"g1", "g2"}
			}
			// locations given with LocationForPC, also on functions that share
			// one code address: the Name is the one of the given location
			g.ft.LocPC = g.r.P(0.4)
			g.ft.LocPCDyn = g.ft.LocPC
		}, defaultMix),
		Eval: evalSimple("C20", func(c *Checked) bool {
			return c.Probes["callback_error"]+c.Probes["callback_panic"] > 0 || c.Probes["callback_runtime_checked"] > 0
		}),
		WantProbes: []string{"callback_fired", "callback_error", "callback_panic", "callback_runtime_checked"},
	})
}

func init() {
	register(&ClassDef{
		Prop: "C05",
		Rule: "history in which a cycle was reported by dig, or a constructor graph one edge short of a cycle was accepted across at least 2 scopes",
		Gen: genGeneric("C05", func(g *genCtx) {
			g.ft.FaultRate, g.ft.FaultInv = 0, 0
			if g.r.Intn(4) == 0 {
				// "never rejected as cyclic" must also hold for what a failed or
				// crashed resolution leaves behind (in-progress markers): faults,
				// recovery on or off, and retries of the same Invoke
				g.ft.FaultRate, g.ft.PRetry = []float64{0.1, 0.3}[g.r.Intn(2)], 0.5
			}
			g.ft.Wild = []float64{0.15, 0.4, 0.8}[g.r.Intn(3)]
			g.ft.NT = g.r.Range(2, 5)
			g.ft.Decorators = g.r.P(0.15)
			g.ft.MaxScopes = g.r.Range(1, 5)
			g.ft.PAvail = 0.9
			g.h.Cfg.Defer = g.r.P(0.35)
			g.m.Defer = g.h.Cfg.Defer
			g.ft.As = false
			g.ft.PReenter = []float64{0, 0, 0.1}[g.r.Intn(3)]
			switch g.r.Intn(6) {
			case 0:
				g.tmpl = (*genCtx).tmplCrossSiblingCycle
			case 1:
				g.tmpl = (*genCtx).tmplDescendantCycle
			case 2:
				g.tmpl = (*genCtx).tmplSiblingRejections
			}
		}, Mix{Scope: 3, Provide: 12, Decorate: 1, Invoke: 7, VisStr: 0}),
		Eval: evalSimple("C05", func(c *Checked) bool {
			return c.Probes["cycle_reported"] > 0 || c.Probes["near_cycle_accepted"] > 0
		}),
		WantProbes: []string{"cycle_reported", "near_cycle_accepted", "runtime_cycle", "graph_case", "graph_cycle_path", "cycle_cross_sibling", "cycle_descendant_only"},
	})
	{
		// every 10th run exercises the cycle detector itself on an explicit digraph
		cd := Classes["C05"]
		gen, eval := cd.Gen, cd.Eval
		cd.Gen = func(seed, run int64, thorough bool) *History {
			if run%10 == 9 {
				r := NewRng(RunSeed(seed, "C05graph", run))
				return &History{Prop: "C05", Seed: seed, Run: run, Class: "graph", Graph: genGraphCase(run/10, r)}
			}
			return gen(seed, run, thorough)
		}
		cd.Eval = func(h *History) *Outcome {
			if h.Graph != nil {
				return evalGraphCase(h)
			}
			return eval(h)
		}
	}
	register(&ClassDef{
		Prop: "C06",
		Rule: "history with a rejected Provide or Decorate followed by at least 2 operations that touch one of its keys",
		Gen: genGeneric("C06", func(g *genCtx) {
			g.ft.FaultRate, g.ft.FaultInv = 0, 0
			g.ft.Wild = []float64{0, 0.2, 0.5}[g.r.Intn(3)]
			g.ft.PDup = 0.35
			g.ft.NT = g.r.Range(2, 5)
			g.ft.Decorators = true
			g.ft.PAvail = 0.9
			switch g.r.Intn(10) {
			case 0, 1:
				g.tmpl = (*genCtx).tmplDescendantCycle
			case 2:
				g.tmpl = (*genCtx).tmplSiblingRejections
			}
		}, Mix{Scope: 3, Provide: 10, Decorate: 5, Invoke: 8, VisStr: 1}),
		Eval:       evalSimple("C06", hasProbe("reuse_after_reject")),
		WantProbes: []string{"reject_dup", "reject_cycle", "reject_decorate", "reuse_after_reject"},
	})
}

func init() {
	register(&ClassDef{
		Prop: "C18",
		Rule: "history in which an accepted registration with at least 3 declared inputs had its Info compared, and a rejected registration's Info struct was checked to be untouched",
		Gen: genGeneric("C18", func(g *genCtx) {
			g.ft.FaultRate, g.ft.FaultInv = 0, 0
			g.ft.Info = true
			g.ft.Objects = true
			g.ft.PDup = 0.3
			g.ft.Wild = []float64{0, 0.2}[g.r.Intn(2)]
			g.ft.NamedSlice = g.r.P(0.3)
			if g.r.P(0.5) {
				g.ft.Catalog = true
				g.ft.LocPC = true
				g.ft.NT = 6
				g.ft.Names, g.ft.Groups = []string{"n1", "n2"}, []string{"g1", "g2"}
			}
		}, Mix{Scope: 2, Provide: 12, Decorate: 4, Invoke: 5, VisStr: 0}),
		Eval:       evalSimple("C18", hasProbe("info_inputs>=3", "info_rejected")),
		WantProbes: []string{"info_accepted", "info_rejected", "info_invoke", "info_inputs>=3", "info_catalog_id"},
	})
}

func init() {
	register(&ClassDef{
		Prop: "C19",
		Rule: "history (declared catalogue functions only) in which Visualize was checked structurally on at least 3 constructors, or for the error of a failed Invoke whose failure lies at depth >= 2",
		Gen: genGeneric("C19", func(g *genCtx) {
			g.ft.Catalog = true
			g.ft.NT = 6
			g.ft.Names, g.ft.Groups = []string{"n1", "n2"}, []string{"g1", "g2"}
			g.ft.Decorators = g.r.P(0.2)
			g.ft.FaultRate = []float64{0, 0.15, 0.3}[g.r.Intn(3)]
			g.ft.FaultInv = 0.05
			g.ft.PAvail = []float64{0.8, 0.95}[g.r.Intn(2)]
			g.ft.PRetry = 0
			g.ft.PDup = 0.2
			g.h.Cfg.Defer = false
			g.m.Defer = false
			// odd but legal types and names from the malformed grammar reach the labels
			g.ft.MalRate = []float64{0, 0.05, 0.15}[g.r.Intn(3)]
			g.ft.VisAfterInvoke = 0.6
			switch g.r.Intn(8) {
			case 0, 1:
				g.tmpl = (*genCtx).tmplGroupFailure
			case 2:
				g.tmpl = (*genCtx).tmplDeepChain
				g.ft.FaultRate = []float64{0, 0, 0.15}[g.r.Intn(3)]
			}
		}, Mix{Scope: 2, Provide: 12, Decorate: 1, Invoke: 6, VisStr: 6}),
		Eval: evalSimple("C19", func(c *Checked) bool {
			return c.Probes["dot_clusters>=3"] > 0 || c.Probes["dot_error_depth>=2"] > 0
		}),
		WantProbes: []string{"dot_parsed", "dot_structure_checked", "dot_clusters>=3", "dot_optional_edge", "dot_group_members_checked", "dot_error_checked", "dot_error_ctor_failure", "dot_error_missing", "dot_error_depth>=2", "canvis_checked"},
	})
}
