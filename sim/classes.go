package sim

import "fmt"

// Outcome is what evaluating one history for one property yields.
type Outcome struct {
	Viol        []Violation
	NonTrivial  bool
	Probes      map[string]int
	Fingerprint string
	Faults      [4]int
	SimNs       int64
	States      []uint64
	Ops         int
	Execs       int
	Twins       int
	CensusOps   int
	Divergence  string
	Real        *Checked `json:"-"`
}

type ClassDef struct {
	Prop       string
	Gen        func(seed, run int64, thorough bool) *History
	Eval       func(h *History) *Outcome
	Rule       string // what makes a history non-trivial for this property
	QuickRuns  int64
	WantProbes []string
}

var Classes = map[string]*ClassDef{}

func register(c *ClassDef) { Classes[c.Prop] = c }

// outcomeOf packages a checked run for property prop.
func outcomeOf(c *Checked, prop string) *Outcome {
	o := &Outcome{Probes: c.Probes, Fingerprint: c.R.W.Fingerprint(), Faults: c.R.W.FaultsFired, SimNs: c.R.W.SimT,
		Ops: len(c.H.Ops), Real: c}
	for _, v := range c.Viol {
		if v.Has(prop) || v.Has("HARNESS") {
			o.Viol = append(o.Viol, v)
		}
	}
	for s := range c.States {
		o.States = append(o.States, s)
	}
	for _, n := range c.R.W.Execs {
		o.Execs += n
	}
	if c.Diverged >= 0 {
		o.Divergence = fmt.Sprintf("op %d: %s", c.Diverged, c.DivNote)
	}
	return o
}

func evalSimple(prop string, nontrivial func(c *Checked) bool) func(h *History) *Outcome {
	return func(h *History) *Outcome {
		c := RunChecked(h)
		o := outcomeOf(c, prop)
		o.NonTrivial = nontrivial(c)
		return o
	}
}

// genGeneric: random programs with retries, tweaked per property.
func genGeneric(prop string, tweak func(g *genCtx), mix Mix) func(seed, run int64, thorough bool) *History {
	return func(seed, run int64, thorough bool) *History {
		g := newGen(prop, seed, run, thorough)
		if tweak != nil {
			tweak(g)
		}
		// a few scopes and providers first so that later ops have something to use
		warm := g.r.Range(2, 6)
		for i := 0; i < warm && len(g.h.Ops) < g.ft.MaxOps; i++ {
			if g.r.P(0.25) {
				g.opScope()
			} else {
				g.opProvide(g.pickScope())
			}
		}
		g.randomOps(g.ft.MaxOps, mix)
		g.genFaults()
		return g.h
	}
}

var defaultMix = Mix{Scope: 2, Provide: 10, Decorate: 3, Invoke: 8, VisStr: 1}

func init() {
	register(&ClassDef{
		Prop: "C07",
		Rule: "history in which an injected fault fired in a constructor or decorator, the identical Invoke was issued again right after, and the failed function was re-executed and then succeeded",
		Gen: genGeneric("C07", func(g *genCtx) {
			g.ft.FaultRate = []float64{0.1, 0.25, 0.4}[g.r.Intn(3)]
			g.ft.FaultInv = 0.05
			g.ft.PRetry = 0.6
		}, defaultMix),
		Eval: evalSimple("C07", func(c *Checked) bool { return c.Probes["retry_healed"] > 0 }),
	})
	register(&ClassDef{
		Prop: "C02",
		Rule: "history in which some function's result was consumed at least 3 times over at least 2 Invokes, at least one of them after a failed Invoke",
		Gen: genGeneric("C02", func(g *genCtx) {
			g.ft.FaultRate = []float64{0, 0.05, 0.25}[g.r.Intn(3)]
			g.ft.FaultInv = 0.1
			g.ft.PRetry = 0.5
			g.ft.PAvail = 0.95
		}, Mix{Scope: 2, Provide: 8, Decorate: 3, Invoke: 12, VisStr: 0}),
		Eval: evalSimple("C02", func(c *Checked) bool { return consumedOften(c) }),
	})
}

// consumedOften: some token was delivered >= 3 times over >= 2 ops, one of
// them after a failed Invoke.
func consumedOften(c *Checked) bool {
	type st struct {
		n        int
		ops      map[int]bool
		afterErr bool
	}
	use := map[int64]*st{}
	failedBefore := false
	for i, r := range c.R.Res {
		if c.H.Ops[i].Kind == OpInvoke {
			for _, e := range c.R.Events(i) {
				if e.Kind != EvEnter {
					continue
				}
				for _, a := range e.Args {
					for _, s := range a.Serials {
						u := use[s]
						if u == nil {
							u = &st{ops: map[int]bool{}}
							use[s] = u
						}
						u.n++
						u.ops[i] = true
						if failedBefore {
							u.afterErr = true
						}
					}
				}
			}
			if r.Verdict != VOK {
				failedBefore = true
			}
		}
	}
	for _, u := range use {
		if u.n >= 3 && len(u.ops) >= 2 && u.afterErr {
			return true
		}
	}
	return false
}
