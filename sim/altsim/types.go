// Package sim (import path digsim/altsim) deliberately has the same *name* as the
// simulator's main package and declares payload types with the same names: the
// reflect.Type values differ while their String() forms ("*sim.K3") collide. A
// universe position p whose Config.AltMask bit is set is realised as this
// package's K<(p+1) mod 16>, i.e. it prints exactly like the main package's type
// at position p+1.
package sim

import "reflect"

type K0 struct{ S int64 }

func (k *K0) Ser() int64 { return k.S }
func (k *K0) MI0()       {}
func (k *K0) MI1()       {}
func (k *K0) MI2()       {}
func (k *K0) MI3()       {}

type K1 struct{ S int64 }

func (k *K1) Ser() int64 { return k.S }
func (k *K1) MI0()       {}
func (k *K1) MI1()       {}
func (k *K1) MI2()       {}
func (k *K1) MI3()       {}

type K2 struct{ S int64 }

func (k *K2) Ser() int64 { return k.S }
func (k *K2) MI0()       {}
func (k *K2) MI1()       {}
func (k *K2) MI2()       {}
func (k *K2) MI3()       {}

type K3 struct{ S int64 }

func (k *K3) Ser() int64 { return k.S }
func (k *K3) MI0()       {}
func (k *K3) MI1()       {}
func (k *K3) MI2()       {}
func (k *K3) MI3()       {}

type K4 struct{ S int64 }

func (k *K4) Ser() int64 { return k.S }
func (k *K4) MI0()       {}
func (k *K4) MI1()       {}
func (k *K4) MI2()       {}
func (k *K4) MI3()       {}

type K5 struct{ S int64 }

func (k *K5) Ser() int64 { return k.S }
func (k *K5) MI0()       {}
func (k *K5) MI1()       {}
func (k *K5) MI2()       {}
func (k *K5) MI3()       {}

type K6 struct{ S int64 }

func (k *K6) Ser() int64 { return k.S }
func (k *K6) MI0()       {}
func (k *K6) MI1()       {}
func (k *K6) MI2()       {}
func (k *K6) MI3()       {}

type K7 struct{ S int64 }

func (k *K7) Ser() int64 { return k.S }
func (k *K7) MI0()       {}
func (k *K7) MI1()       {}
func (k *K7) MI2()       {}
func (k *K7) MI3()       {}

type K8 struct{ S int64 }

func (k *K8) Ser() int64 { return k.S }
func (k *K8) MI0()       {}
func (k *K8) MI1()       {}
func (k *K8) MI2()       {}
func (k *K8) MI3()       {}

type K9 struct{ S int64 }

func (k *K9) Ser() int64 { return k.S }
func (k *K9) MI0()       {}
func (k *K9) MI1()       {}
func (k *K9) MI2()       {}
func (k *K9) MI3()       {}

type K10 struct{ S int64 }

func (k *K10) Ser() int64 { return k.S }
func (k *K10) MI0()       {}
func (k *K10) MI1()       {}
func (k *K10) MI2()       {}
func (k *K10) MI3()       {}

type K11 struct{ S int64 }

func (k *K11) Ser() int64 { return k.S }
func (k *K11) MI0()       {}
func (k *K11) MI1()       {}
func (k *K11) MI2()       {}
func (k *K11) MI3()       {}

type K12 struct{ S int64 }

func (k *K12) Ser() int64 { return k.S }
func (k *K12) MI0()       {}
func (k *K12) MI1()       {}
func (k *K12) MI2()       {}
func (k *K12) MI3()       {}

type K13 struct{ S int64 }

func (k *K13) Ser() int64 { return k.S }
func (k *K13) MI0()       {}
func (k *K13) MI1()       {}
func (k *K13) MI2()       {}
func (k *K13) MI3()       {}

type K14 struct{ S int64 }

func (k *K14) Ser() int64 { return k.S }
func (k *K14) MI0()       {}
func (k *K14) MI1()       {}
func (k *K14) MI2()       {}
func (k *K14) MI3()       {}

type K15 struct{ S int64 }

func (k *K15) Ser() int64 { return k.S }
func (k *K15) MI0()       {}
func (k *K15) MI1()       {}
func (k *K15) MI2()       {}
func (k *K15) MI3()       {}

var KTypes = []reflect.Type{reflect.TypeOf((*K0)(nil)), reflect.TypeOf((*K1)(nil)), reflect.TypeOf((*K2)(nil)), reflect.TypeOf((*K3)(nil)), reflect.TypeOf((*K4)(nil)), reflect.TypeOf((*K5)(nil)), reflect.TypeOf((*K6)(nil)), reflect.TypeOf((*K7)(nil)), reflect.TypeOf((*K8)(nil)), reflect.TypeOf((*K9)(nil)), reflect.TypeOf((*K10)(nil)), reflect.TypeOf((*K11)(nil)), reflect.TypeOf((*K12)(nil)), reflect.TypeOf((*K13)(nil)), reflect.TypeOf((*K14)(nil)), reflect.TypeOf((*K15)(nil))}
var KNew = []func(int64) interface{}{func(s int64) interface{} { return &K0{S: s} }, func(s int64) interface{} { return &K1{S: s} }, func(s int64) interface{} { return &K2{S: s} }, func(s int64) interface{} { return &K3{S: s} }, func(s int64) interface{} { return &K4{S: s} }, func(s int64) interface{} { return &K5{S: s} }, func(s int64) interface{} { return &K6{S: s} }, func(s int64) interface{} { return &K7{S: s} }, func(s int64) interface{} { return &K8{S: s} }, func(s int64) interface{} { return &K9{S: s} }, func(s int64) interface{} { return &K10{S: s} }, func(s int64) interface{} { return &K11{S: s} }, func(s int64) interface{} { return &K12{S: s} }, func(s int64) interface{} { return &K13{S: s} }, func(s int64) interface{} { return &K14{S: s} }, func(s int64) interface{} { return &K15{S: s} }}
