package sim

import (
	"fmt"
	"reflect"
	"sync"
)

// Runtime side of the catalogue (see gencat.go / catalog_gen.go).

var (
	catWorld *World // the world the declared functions currently belong to
	catSpecs []Func // specs the declared functions were generated from
)

var catFns []interface{}

var catOnce sync.Once

func catInit() { catOnce.Do(catSetup) }

func catSetup() {
	if len(catFns) == 0 {
		return
	}
	catSpecs = FrozenCatalog()
	if len(catSpecs) != len(catFns) {
		panic(fmt.Sprintf("catalogue out of date: %d specs, %d functions; run `digsim gencat`", len(catSpecs), len(catFns)))
	}
	for i := range catSpecs {
		want := FuncType(&catSpecs[i])
		got := reflect.TypeOf(catFns[i])
		if !sameShape(want, got) {
			panic(fmt.Sprintf("catalogue out of date: Cat%d has type %v, spec wants %v; run `digsim gencat`", i, got, want))
		}
	}
	catalogFn = func(w *World, f *Func) interface{} {
		if w.catBind == nil {
			w.catBind = map[int]*Func{}
		}
		if !sameLeaves(f.LeafParams(), catSpecs[f.Cat].LeafParams()) || len(f.Results) != len(catSpecs[f.Cat].Results) || f.HasErr != catSpecs[f.Cat].HasErr || !reflect.DeepEqual(f.Layout(), catSpecs[f.Cat].Layout()) {
			panic(fmt.Sprintf("harness: spec f%d does not match catalogue function %d", f.ID, f.Cat))
		}
		w.catBind[f.Cat] = f
		return catFns[f.Cat]
	}
	catalogName = func(f *Func) string {
		// the location given with LocationForPC is the function's name for dig
		if t := locTarget(f); t >= 0 && f.Role == RoleCtor {
			return fmt.Sprintf("digsim.Cat%d", t)
		}
		if f.Cat < 0 {
			return ""
		}
		return fmt.Sprintf("digsim.Cat%d", f.Cat)
	}
}

// sameShape: same number of ins/outs and variadic-ness (struct types are
// declared vs. reflect-made, so they are not identical).
func sameShape(a, b reflect.Type) bool {
	return a.NumIn() == b.NumIn() && a.NumOut() == b.NumOut() && a.IsVariadic() == b.IsVariadic()
}

func catCall(idx int, args []reflect.Value) []reflect.Value {
	w := catWorld
	if w == nil {
		panic("catalogue function called outside a run")
	}
	f := w.catBind[idx]
	if f == nil {
		panic(fmt.Sprintf("catalogue function %d is not bound in this run", idx))
	}
	return w.call(f, reflect.TypeOf(catFns[idx]), args)
}

func catErr(v reflect.Value) error {
	if v.IsNil() {
		return nil
	}
	return v.Interface().(error)
}
