package sim

// catalogFn resolves a catalogue (declared Go function) stub; see catalog_gen.go.
var catalogFn = func(w *World, f *Func) interface{} { panic("catalogue not linked") }
