package sim

// Rng is a splitmix64 generator: the only source of choices in the harness.
type Rng struct{ s uint64 }

func NewRng(seed int64) *Rng { return &Rng{s: uint64(seed)} }

func (r *Rng) U64() uint64 {
	r.s += 0x9E3779B97F4A7C15
	x := r.s
	x ^= x >> 30
	x *= 0xBF58476D1CE4E5B9
	x ^= x >> 27
	x *= 0x94D049BB133111EB
	x ^= x >> 31
	return x
}

func (r *Rng) Intn(n int) int {
	if n <= 0 {
		return 0
	}
	return int(r.U64() % uint64(n))
}

// Range returns a value in [lo, hi].
func (r *Rng) Range(lo, hi int) int { return lo + r.Intn(hi-lo+1) }

func (r *Rng) P(p float64) bool { return float64(r.U64()>>11)/float64(1<<53) < p }

func (r *Rng) I64() int64 { return int64(r.U64() >> 1) }

func (r *Rng) Perm(n int) []int {
	p := make([]int, n)
	for i := range p {
		p[i] = i
	}
	for i := n - 1; i > 0; i-- {
		j := r.Intn(i + 1)
		p[i], p[j] = p[j], p[i]
	}
	return p
}

// RunSeed derives the seed of run i of a property from VERIF_SEED.
func RunSeed(seed int64, prop string, run int64) int64 {
	h := seed
	for _, c := range prop {
		h = mix64(h, int64(c))
	}
	return mix64(h, run)
}
