package sim

import "sort"

// The reference model is declarative: it records what was accepted where and
// answers "who must have produced this argument", "what may an Invoke
// execute", "is this dependency available". It never re-implements dig's
// traversal order.

// reSpec: the function's body (or callback) issues a nested request for Key on
// scope Scope while it runs (re-entrant user code).
type reSpec struct {
	Key   Key
	Scope int
}

func reSpecOf(f *Func, home int) *reSpec {
	if !f.Reenter || f.Role == RoleInv {
		return nil
	}
	if f.ReKey != nil {
		return &reSpec{*f.ReKey, f.ReScope}
	}
	lr := f.LeafResults()
	if len(lr) == 0 || len(lr[0].Keys) == 0 {
		return nil
	}
	return &reSpec{lr[0].Keys[0], home}
}

type MCtor struct {
	Re           *reSpec
	Fn, Op       int
	Home, Origin int
	LP           []LeafParam
	LR           []LeafResult
	Built        bool
	Minted       [][]int64 // serials per leaf result of the successful execution
}

type MDec struct {
	Re     *reSpec
	Fn, Op int
	Scope  int
	LP     []LeafParam
	LR     []LeafResult
	Built  bool
	Minted [][]int64
}

type MScope struct {
	Parent   int
	Children []int
	Prov     map[Key][]*MCtor
	Dec      map[Key]*MDec
	Ctors    []*MCtor
	Decs     []*MDec
}

type Model struct {
	S     []*MScope
	ByFn  map[int]*MCtor
	DByFn map[int]*MDec
	Defer bool

	stackMemo map[*MDec]map[int]bool
}

func NewModel(deferAcyclic bool) *Model {
	m := &Model{ByFn: map[int]*MCtor{}, DByFn: map[int]*MDec{}, Defer: deferAcyclic}
	m.S = []*MScope{newMScope(-1)}
	return m
}

func newMScope(parent int) *MScope {
	return &MScope{Parent: parent, Prov: map[Key][]*MCtor{}, Dec: map[Key]*MDec{}}
}

func (m *Model) AddScope(parent int) int {
	id := len(m.S)
	m.S = append(m.S, newMScope(parent))
	m.S[parent].Children = append(m.S[parent].Children, id)
	m.stackMemo = nil
	return id
}

// Path lists s and its ancestors, nearest first.
func (m *Model) Path(s int) []int {
	var p []int
	for ; s >= 0; s = m.S[s].Parent {
		p = append(p, s)
	}
	return p
}

func (m *Model) IsAnc(a, s int) bool {
	for ; s >= 0; s = m.S[s].Parent {
		if s == a {
			return true
		}
	}
	return false
}

// Subtree lists s and all descendants.
func (m *Model) Subtree(s int) []int {
	out := []int{s}
	for _, c := range m.S[s].Children {
		out = append(out, m.Subtree(c)...)
	}
	return out
}

func (m *Model) Depth(s int) int { return len(m.Path(s)) - 1 }

func (m *Model) NearestProv(s int, k Key) *MCtor {
	for _, x := range m.Path(s) {
		if ps := m.S[x].Prov[k]; len(ps) > 0 {
			return ps[0]
		}
	}
	return nil
}

// AllProv lists every provider of k visible from s (all enclosing scopes).
func (m *Model) AllProv(s int, k Key) []*MCtor {
	var out []*MCtor
	for _, x := range m.Path(s) {
		out = append(out, m.S[x].Prov[k]...)
	}
	return out
}

func (m *Model) NearestDec(s int, k Key, skip *MDec) *MDec {
	for _, x := range m.Path(s) {
		if d := m.S[x].Dec[k]; d != nil && d != skip {
			return d
		}
	}
	return nil
}

// DecsOnPath lists all decorators of k on s→root, nearest first.
func (m *Model) DecsOnPath(s int, k Key, skip *MDec) []*MDec {
	var out []*MDec
	for _, x := range m.Path(s) {
		if d := m.S[x].Dec[k]; d != nil && d != skip {
			out = append(out, d)
		}
	}
	return out
}

// ---------------------------------------------------------------- acceptance

type Pred int

const (
	PredOK Pred = iota
	PredDup
	PredCycle       // must be rejected as a cycle
	PredCycleEither // may be rejected as a cycle or accepted
	PredInvalid
)

func (p Pred) String() string {
	return [...]string{"accept", "duplicate", "cycle", "cycle-or-accept", "invalid"}[p]
}

// singleKeys lists the non-group keys of a function's results.
func singleKeys(lr []LeafResult) []Key {
	var ks []Key
	for _, r := range lr {
		for _, k := range r.Keys {
			if !k.IsGroup() {
				ks = append(ks, k)
			}
		}
	}
	return ks
}

func (m *Model) PredictProvide(scope int, f *Func) Pred {
	target := scope
	if f.Export {
		target = 0
	}
	lr := f.LeafResults()
	if len(lr) == 0 {
		return PredInvalid
	}
	seen := map[Key]bool{}
	for _, k := range singleKeys(lr) {
		if seen[k] || len(m.S[target].Prov[k]) > 0 {
			return PredDup
		}
		seen[k] = true
	}
	if m.Defer {
		return PredOK
	}
	c := &MCtor{Fn: f.ID, Home: target, Origin: scope, LP: f.LeafParams(), LR: lr}
	m.link(c)
	must := m.cycleThrough(c, false)
	may := must || m.cycleThrough(c, true)
	m.unlink(c)
	switch {
	case must:
		return PredCycle
	case may:
		return PredCycleEither
	}
	return PredOK
}

func (m *Model) link(c *MCtor) {
	sc := m.S[c.Home]
	for _, r := range c.LR {
		for _, k := range r.Keys {
			if !containsCtor(sc.Prov[k], c) {
				sc.Prov[k] = append(sc.Prov[k], c)
			}
		}
	}
	sc.Ctors = append(sc.Ctors, c)
}

func (m *Model) unlink(c *MCtor) {
	sc := m.S[c.Home]
	for _, r := range c.LR {
		for _, k := range r.Keys {
			ps := sc.Prov[k]
			for i, p := range ps {
				if p == c {
					sc.Prov[k] = append(ps[:i:i], ps[i+1:]...)
					break
				}
			}
			if len(sc.Prov[k]) == 0 {
				delete(sc.Prov, k)
			}
		}
	}
	for i, p := range sc.Ctors {
		if p == c {
			sc.Ctors = append(sc.Ctors[:i:i], sc.Ctors[i+1:]...)
			break
		}
	}
}

func containsCtor(ps []*MCtor, c *MCtor) bool {
	for _, p := range ps {
		if p == c {
			return true
		}
	}
	return false
}

// AddCtor records an accepted constructor.
func (m *Model) AddCtor(scope, op int, f *Func) *MCtor {
	target := scope
	if f.Export {
		target = 0
	}
	c := &MCtor{Fn: f.ID, Op: op, Home: target, Origin: scope, LP: f.LeafParams(), LR: f.LeafResults(), Re: reSpecOf(f, target)}
	m.link(c)
	m.ByFn[f.ID] = c
	m.stackMemo = nil
	return c
}

func (m *Model) PredictDecorate(scope int, f *Func) Pred {
	seen := map[Key]bool{}
	for _, r := range f.LeafResults() {
		for _, k := range r.Keys {
			if seen[k] || m.S[scope].Dec[k] != nil {
				return PredDup
			}
			seen[k] = true
		}
	}
	return PredOK
}

func (m *Model) AddDec(scope, op int, f *Func) *MDec {
	d := &MDec{Fn: f.ID, Op: op, Scope: scope, LP: f.LeafParams(), LR: f.LeafResults(), Re: reSpecOf(f, scope)}
	for _, r := range d.LR {
		for _, k := range r.Keys {
			m.S[scope].Dec[k] = d
		}
	}
	m.S[scope].Decs = append(m.S[scope].Decs, d)
	m.DByFn[f.ID] = d
	m.stackMemo = nil
	return d
}

// ---------------------------------------------------------------- cycles

// visibleCtors lists constructors visible from scope t.
func (m *Model) visibleCtors(t int) []*MCtor {
	var out []*MCtor
	for _, x := range m.Path(t) {
		out = append(out, m.S[x].Ctors...)
	}
	return out
}

// cycleThrough reports whether constructor c lies on a cycle in the view of
// some scope of its home's subtree (permissive=false: hard edges, one view at
// a time -- reading R2), or in the union of all views including soft group
// edges (permissive=true -- reading R3).
func (m *Model) cycleThrough(c *MCtor, permissive bool) bool {
	if permissive {
		return m.onCycle(c, func(n *MCtor) []*MCtor { return m.succUnion(n) })
	}
	for _, t := range m.Subtree(c.Home) {
		t := t
		if m.onCycle(c, func(n *MCtor) []*MCtor { return m.succView(n, t, false) }) {
			return true
		}
	}
	return false
}

func (m *Model) onCycle(c *MCtor, succ func(*MCtor) []*MCtor) bool {
	seen := map[*MCtor]bool{}
	var dfs func(n *MCtor) bool
	dfs = func(n *MCtor) bool {
		for _, x := range succ(n) {
			if x == c {
				return true
			}
			if !seen[x] {
				seen[x] = true
				if dfs(x) {
					return true
				}
			}
		}
		return false
	}
	return dfs(c)
}

// succView: dependencies of n as scope t's graph sees them: every provider
// visible from t of every key n consumes.
func (m *Model) succView(n *MCtor, t int, soft bool) []*MCtor {
	var out []*MCtor
	for _, p := range n.LP {
		if p.Soft && !soft {
			continue
		}
		out = append(out, m.AllProv(t, p.Key)...)
	}
	return out
}

// succUnion: n -> x iff some scope sees both and x produces a key n consumes.
func (m *Model) succUnion(n *MCtor) []*MCtor {
	var out []*MCtor
	seen := map[*MCtor]bool{}
	for _, t := range m.Subtree(n.Home) {
		for _, x := range m.succView(n, t, true) {
			if !seen[x] {
				seen[x] = true
				out = append(out, x)
			}
		}
	}
	return out
}

// AnyCycle reports whether the union graph (reading R3) has any cycle.
func (m *Model) AnyCycle() bool {
	for _, sc := range m.S {
		for _, c := range sc.Ctors {
			if m.cycleThrough(c, true) {
				return true
			}
		}
	}
	return false
}

// ---------------------------------------------------------------- resolution

// Consumer identifies who resolves a key: the scope whose view applies and,
// for a decorator resolving its own parameters, the decorator to skip.
type Consumer struct {
	Scope int
	Self  *MDec
	Fn    int // spec id of the consuming function (-1: the invoked function)
}

// Source is the expected origin of a single value.
type Source struct {
	Dec  *MDec
	Ctor *MCtor
}

func (s Source) None() bool { return s.Dec == nil && s.Ctor == nil }

func (s Source) Fn() int {
	if s.Dec != nil {
		return s.Dec.Fn
	}
	if s.Ctor != nil {
		return s.Ctor.Fn
	}
	return -1
}

// Producer: nearest enclosing decorator, else nearest provider.
func (m *Model) Producer(c Consumer, k Key) Source {
	if d := m.NearestDec(c.Scope, k, c.Self); d != nil {
		return Source{Dec: d}
	}
	return Source{Ctor: m.NearestProv(c.Scope, k)}
}

// permClosure is the most permissive static closure of a parameter list:
// every decorator on the path, the nearest provider and every feeder of every
// key, ignoring what is built. It only serves to decide whether a function can
// possibly execute while a given decorator is being built.
func (m *Model) permClosure(c Consumer, lp []LeafParam) map[int]bool {
	out := map[int]bool{}
	var params func(c Consumer, lp []LeafParam)
	params = func(c Consumer, lp []LeafParam) {
		for _, p := range lp {
			for _, d := range m.DecsOnPath(c.Scope, p.Key, c.Self) {
				if !out[d.Fn] {
					out[d.Fn] = true
					params(Consumer{Scope: d.Scope, Self: d, Fn: d.Fn}, d.LP)
					if d.Re != nil && d.Re.Scope < len(m.S) {
						params(Consumer{Scope: d.Re.Scope, Fn: d.Fn}, []LeafParam{{Key: d.Re.Key, Obj: -1}})
					}
				}
			}
			var ns []*MCtor
			if p.Key.IsGroup() {
				ns = m.Feeders(c.Scope, p.Key)
			} else if n := m.NearestProv(c.Scope, p.Key); n != nil {
				ns = []*MCtor{n}
			}
			for _, n := range ns {
				if !out[n.Fn] {
					out[n.Fn] = true
					params(Consumer{Scope: n.Origin, Fn: n.Fn}, n.LP)
					if n.Re != nil && n.Re.Scope < len(m.S) {
						params(Consumer{Scope: n.Re.Scope, Fn: n.Fn}, []LeafParam{{Key: n.Re.Key, Obj: -1}})
					}
				}
			}
		}
	}
	params(c, lp)
	return out
}

// MayBeOnStack: can function fn execute while decorator d is being built?
// (dig skips a decorator that is on the stack, so such a function sees the
// value without d's decoration -- intended behaviour, see DESIGN §9 R2.)
func (m *Model) MayBeOnStack(d *MDec, fn int) bool {
	if fn < 0 {
		return false
	}
	if m.stackMemo == nil {
		m.stackMemo = map[*MDec]map[int]bool{}
	}
	cl, ok := m.stackMemo[d]
	if !ok {
		cl = m.permClosure(Consumer{Scope: d.Scope, Self: d, Fn: d.Fn}, d.LP)
		m.stackMemo[d] = cl
	}
	return cl[fn]
}

// Sources lists the acceptable origins of single key k for a consumer: the
// nearest decorator; if the consumer can run while that decorator is being
// built, also what dig delivers when it skips it (next decorator / provider).
func (m *Model) Sources(c Consumer, k Key) []Source {
	var out []Source
	for _, d := range m.DecsOnPath(c.Scope, k, c.Self) {
		out = append(out, Source{Dec: d})
		if !m.MayBeOnStack(d, c.Fn) {
			return out
		}
	}
	return append(out, Source{Ctor: m.NearestProv(c.Scope, k)})
}

// Feeders: every constructor feeding group key k visible from s.
func (m *Model) Feeders(s int, k Key) []*MCtor {
	return m.AllProv(s, k)
}

// leafFor returns the indices of the result leaves of lr stored under k.
func leafFor(lr []LeafResult, k Key) []int {
	var out []int
	for i, r := range lr {
		for _, rk := range r.Keys {
			if rk == k {
				out = append(out, i)
				break
			}
		}
	}
	return out
}

// ConsumerOf returns the consumer view for a function executing in the log.
func (m *Model) ConsumerOf(fn int, invokeScope int) (Consumer, []LeafParam, bool) {
	if c, ok := m.ByFn[fn]; ok {
		return Consumer{Scope: c.Origin, Fn: fn}, c.LP, true
	}
	if d, ok := m.DByFn[fn]; ok {
		return Consumer{Scope: d.Scope, Self: d, Fn: fn}, d.LP, true
	}
	return Consumer{Scope: invokeScope, Fn: -1}, nil, false
}

// ---------------------------------------------------------------- availability / closure

type tri int

const (
	no tri = iota
	yes
	unknown
)

// availState memoises availability of constructors and decorators during one
// query; a node met again while being evaluated means a loop: unknown.
type availState struct {
	m     *Model
	ctor  map[*MCtor]tri
	dec   map[*MDec]tri
	onC   map[*MCtor]bool
	onD   map[*MDec]bool
	Loops bool
}

func (m *Model) newAvail() *availState {
	return &availState{m: m, ctor: map[*MCtor]tri{}, dec: map[*MDec]tri{}, onC: map[*MCtor]bool{}, onD: map[*MDec]bool{}}
}

func and(a, b tri) tri {
	if a == no || b == no {
		return no
	}
	if a == unknown || b == unknown {
		return unknown
	}
	return yes
}

// key: can a consumer obtain single key k (required)?
func (a *availState) key(c Consumer, k Key) tri {
	if len(a.m.AllProv(c.Scope, k)) == 0 {
		// dig's shallow check wants a provider even for a decorated key; a
		// key that only a decorator introduces is outside every claim.
		if a.m.NearestDec(c.Scope, k, c.Self) != nil {
			return unknown
		}
		return no
	}
	if d := a.m.NearestDec(c.Scope, k, c.Self); d != nil {
		return a.decAvail(d)
	}
	p := a.m.NearestProv(c.Scope, k)
	if p == nil {
		return no
	}
	return a.ctorAvail(p)
}

func (a *availState) group(c Consumer, k Key, soft bool) tri {
	r := yes
	// every group decorator on the path runs
	for _, d := range a.m.DecsOnPath(c.Scope, k, c.Self) {
		r = and(r, a.decAvail(d))
	}
	if len(a.m.DecsOnPath(c.Scope, k, c.Self)) > 0 || soft {
		return r
	}
	for _, f := range a.m.Feeders(c.Scope, k) {
		r = and(r, a.ctorAvail(f))
	}
	return r
}

func (a *availState) params(c Consumer, lp []LeafParam) tri {
	r := yes
	for _, p := range lp {
		switch {
		case p.Key.IsGroup():
			r = and(r, a.group(c, p.Key, p.Soft))
		case p.Opt:
			// an optional key never makes its consumer unavailable, except
			// through a decorator (outside the claim: unknown if unavailable)
			if d := a.m.NearestDec(c.Scope, p.Key, c.Self); d != nil {
				if a.decAvail(d) != yes {
					r = and(r, unknown)
				}
			}
		default:
			r = and(r, a.key(c, p.Key))
		}
	}
	return r
}

func (a *availState) ctorAvail(n *MCtor) tri {
	if n.Built {
		return yes
	}
	if v, ok := a.ctor[n]; ok {
		return v
	}
	if a.onC[n] {
		a.Loops = true
		return unknown
	}
	a.onC[n] = true
	v := a.params(Consumer{Scope: n.Origin, Fn: n.Fn}, n.LP)
	delete(a.onC, n)
	a.ctor[n] = v
	return v
}

func (a *availState) decAvail(d *MDec) tri {
	if d.Built {
		return yes
	}
	if v, ok := a.dec[d]; ok {
		return v
	}
	if a.onD[d] {
		a.Loops = true
		return unknown
	}
	a.onD[d] = true
	v := a.params(Consumer{Scope: d.Scope, Self: d, Fn: d.Fn}, d.LP)
	delete(a.onD, d)
	a.dec[d] = v
	return v
}

// Closure computes the set of functions (by spec id) an Invoke from consumer c
// with parameters lp may execute (upper bound), following required
// dependencies, optional dependencies that have a constructor, non-soft
// groups and every decorator met on the way.
type Closure struct {
	Fns       map[int]bool
	Decorated bool // a decorator was met: the lower bound is not claimed
	Loop      bool
	Nested    bool // some member issues a nested request from its body or callback
}

func (m *Model) ClosureOf(c Consumer, lp []LeafParam) *Closure { return m.closureOf(c, lp, false) }

// MustClosure is the lower bound: what a successful Invoke must have executed.
// Optional dependencies whose provider chain is unavailable, and optional
// dependencies that are decorated (outside the claim), are left out.
func (m *Model) MustClosure(c Consumer, lp []LeafParam) *Closure { return m.closureOf(c, lp, true) }

func (m *Model) closureOf(c Consumer, lp []LeafParam, must bool) *Closure {
	cl := &Closure{Fns: map[int]bool{}}
	av := m.newAvail()
	seenC := map[*MCtor]bool{}
	seenD := map[*MDec]bool{}
	var params func(c Consumer, lp []LeafParam)
	var ctor func(n *MCtor)
	var dec func(d *MDec)
	ctor = func(n *MCtor) {
		if seenC[n] {
			return
		}
		seenC[n] = true
		if n.Built {
			return
		}
		cl.Fns[n.Fn] = true
		params(Consumer{Scope: n.Origin, Fn: n.Fn}, n.LP)
		if n.Re != nil && !must && n.Re.Scope < len(m.S) {
			// what the nested request issued by the body / callback may execute
			cl.Nested = true
			params(Consumer{Scope: n.Re.Scope, Fn: n.Fn}, []LeafParam{{Key: n.Re.Key, Obj: -1}})
		}
	}
	dec = func(d *MDec) {
		if seenD[d] {
			return
		}
		seenD[d] = true
		cl.Decorated = true
		if d.Built {
			return
		}
		cl.Fns[d.Fn] = true
		params(Consumer{Scope: d.Scope, Self: d, Fn: d.Fn}, d.LP)
		if d.Re != nil && !must && d.Re.Scope < len(m.S) {
			cl.Nested = true
			params(Consumer{Scope: d.Re.Scope, Self: d, Fn: d.Fn}, []LeafParam{{Key: d.Re.Key, Obj: -1}})
			params(Consumer{Scope: d.Re.Scope, Fn: d.Fn}, []LeafParam{{Key: d.Re.Key, Obj: -1}})
		}
	}
	params = func(c Consumer, lp []LeafParam) {
		for _, p := range lp {
			ds := m.DecsOnPath(c.Scope, p.Key, c.Self)
			hidden := false // a decorator that cannot be on the stack hides what lies behind it
			if p.Key.IsGroup() {
				for _, d := range ds {
					dec(d)
					if !m.MayBeOnStack(d, c.Fn) {
						hidden = true
					} else {
						cl.Loop = true
					}
				}
				if !hidden && !p.Soft {
					for _, f := range m.Feeders(c.Scope, p.Key) {
						ctor(f)
					}
				}
				continue
			}
			if must && p.Opt {
				if len(ds) > 0 {
					continue
				}
				if n := m.NearestProv(c.Scope, p.Key); n == nil || av.ctorAvail(n) != yes {
					continue
				}
			}
			for _, d := range ds {
				dec(d)
				if !m.MayBeOnStack(d, c.Fn) {
					hidden = true
					break
				}
				cl.Loop = true
			}
			if hidden {
				continue
			}
			if n := m.NearestProv(c.Scope, p.Key); n != nil {
				ctor(n)
			}
		}
	}
	params(c, lp)
	return cl
}

// MissingDirect reports whether a required single parameter has no provider
// at all visible from the consumer's scope (dig's shallow check). A key that
// has no provider but a decorator on the path (a decorator-introduced key) is
// outside every claim and not reported.
func (m *Model) MissingDirect(c Consumer, lp []LeafParam) bool {
	for _, p := range lp {
		if p.Key.IsGroup() || p.Opt {
			continue
		}
		if len(m.AllProv(c.Scope, p.Key)) == 0 && m.NearestDec(c.Scope, p.Key, nil) == nil {
			return true
		}
	}
	return false
}

// MissingShallow: some required single parameter has no provider visible at
// all (whatever decorators exist): dig's shallow check fails before anything
// is resolved.
func (m *Model) MissingShallow(c Consumer, lp []LeafParam) bool {
	for _, p := range lp {
		if !p.Key.IsGroup() && !p.Opt && len(m.AllProv(c.Scope, p.Key)) == 0 {
			return true
		}
	}
	return false
}

// RuntimeCycle follows nearest providers / feeders from the consumer's
// parameters (reading R1) and reports the constructors on a cycle that
// resolution would traverse (nil if none).
func (m *Model) RuntimeCycle(c Consumer, lp []LeafParam) []*MCtor {
	if len(m.DByFn) > 0 {
		// decorators hide providers and are skipped while on the stack: with
		// any decorator registered only termination is claimed (DESIGN §5 C05)
		return nil
	}
	on := map[*MCtor]bool{}
	done := map[*MCtor]bool{}
	var stack []*MCtor
	var found []*MCtor
	var visit func(n *MCtor) bool
	params := func(c Consumer, lp []LeafParam) bool {
		for _, p := range lp {
			var next []*MCtor
			if p.Key.IsGroup() {
				if p.Soft {
					continue
				}
				next = m.Feeders(c.Scope, p.Key)
			} else if n := m.NearestProv(c.Scope, p.Key); n != nil {
				next = []*MCtor{n}
			}
			for _, n := range next {
				if visit(n) {
					return true
				}
			}
		}
		return false
	}
	visit = func(n *MCtor) bool {
		if n.Built || done[n] {
			return false
		}
		if on[n] {
			for i, x := range stack {
				if x == n {
					found = append([]*MCtor(nil), stack[i:]...)
				}
			}
			return true
		}
		if m.MissingShallow(Consumer{Scope: n.Origin, Fn: n.Fn}, n.LP) ||
			m.newAvail().params(Consumer{Scope: n.Origin, Fn: n.Fn}, n.LP) == no {
			// (a definitely unavailable dependency may make resolution fail
			// here before it reaches the cyclic parameter: no claim)
			// dig's shallow check fails before any parameter is resolved:
			// resolution does not go through this constructor
			done[n] = true
			return false
		}
		on[n] = true
		stack = append(stack, n)
		r := params(Consumer{Scope: n.Origin, Fn: n.Fn}, n.LP)
		stack = stack[:len(stack)-1]
		delete(on, n)
		done[n] = true
		return r
	}
	params(c, lp)
	return found
}

// StateHash is an abstract fingerprint of the registry shape + built bits.
func (m *Model) StateHash() uint64 {
	var h uint64 = 1469598103934665603
	mixin := func(x uint64) { h ^= x; h *= 1099511628211 }
	for i, sc := range m.S {
		mixin(uint64(i)<<8 | uint64(sc.Parent+1))
		var ks []Key
		for k := range sc.Prov {
			ks = append(ks, k)
		}
		sort.Slice(ks, func(a, b int) bool { return keyLess(ks[a], ks[b]) })
		for _, k := range ks {
			mixin(keyHash(k))
			for _, c := range sc.Prov[k] {
				b := uint64(0)
				if c.Built {
					b = 1
				}
				mixin(uint64(len(c.LP))<<1 | b)
			}
		}
		ks = ks[:0]
		for k := range sc.Dec {
			ks = append(ks, k)
		}
		sort.Slice(ks, func(a, b int) bool { return keyLess(ks[a], ks[b]) })
		for _, k := range ks {
			mixin(keyHash(k) ^ 0xdec)
			if sc.Dec[k].Built {
				mixin(7)
			}
		}
	}
	return h
}

func keyLess(a, b Key) bool {
	if a.T != b.T {
		return a.T < b.T
	}
	if a.Name != b.Name {
		return a.Name < b.Name
	}
	return a.Group < b.Group
}

func keyHash(k Key) uint64 {
	h := uint64(k.T)*1000003 + 17
	for _, c := range k.Name {
		h = h*131 + uint64(c)
	}
	h = h*7 + 3
	for _, c := range k.Group {
		h = h*131 + uint64(c)
	}
	return h
}
