package sim

import (
	"encoding/json"
	"reflect"
)

// Minimisation: delta debugging over the op list, then over function specs,
// then over the fault plan. A candidate is kept only if the same violation
// class of the same property persists.

type evalFn func(h *History) []Violation

func hasClass(vs []Violation, prop, class string) bool {
	for _, v := range vs {
		if v.Class == class && (v.Has(prop) || prop == "") {
			return true
		}
	}
	return false
}

// dropOps removes the ops in drop (set of indices), together with every op
// that targets a scope whose creation is dropped; scope indices and ErrFrom
// references are renumbered.
func dropOps(h *History, drop map[int]bool) *History {
	n := h.Clone()
	// scope index created by each OpScope
	scopeOf := map[int]int{}
	next := 1
	for i, o := range h.Ops {
		if o.Kind == OpScope {
			scopeOf[i] = next
			next++
		}
	}
	dead := map[int]bool{} // scopes removed
	changed := true
	for changed {
		changed = false
		for i, o := range h.Ops {
			if o.Kind == OpScope {
				if (drop[i] || dead[o.Scope]) && !dead[scopeOf[i]] {
					dead[scopeOf[i]] = true
					changed = true
				}
			}
		}
	}
	remap := map[int]int{0: 0}
	k := 1
	for s := 1; s < next; s++ {
		if !dead[s] {
			remap[s] = k
			k++
		}
	}
	opMap := map[int]int{}
	n.Ops = n.Ops[:0]
	for i, o := range h.Ops {
		if drop[i] || dead[o.Scope] {
			continue
		}
		if o.Kind == OpScope && dead[scopeOf[i]] {
			continue
		}
		o.Scope = remap[o.Scope]
		opMap[i] = len(n.Ops)
		n.Ops = append(n.Ops, o)
	}
	for i := range n.Ops {
		if n.Ops[i].ErrFrom > 0 {
			if j, ok := opMap[n.Ops[i].ErrFrom-1]; ok {
				n.Ops[i].ErrFrom = j + 1
			} else {
				n.Ops[i].ErrFrom = 0
			}
		}
	}
	return n
}

// Shrink minimises h while eval keeps reporting class for prop.
func Shrink(h *History, prop, class string, eval evalFn, budget int) *History {
	cur := h
	tries := 0
	test := func(c *History) bool {
		if tries >= budget {
			return false
		}
		tries++
		return hasClass(eval(c), prop, class)
	}
	// 1. ddmin on ops
	for chunk := len(cur.Ops) / 2; chunk >= 1; chunk /= 2 {
		for start := 0; start < len(cur.Ops); {
			end := start + chunk
			if end > len(cur.Ops) {
				end = len(cur.Ops)
			}
			drop := map[int]bool{}
			for i := start; i < end; i++ {
				drop[i] = true
			}
			c := dropOps(cur, drop)
			if len(c.Ops) < len(cur.Ops) && test(c) {
				cur = c
			} else {
				start = end
			}
		}
	}
	for progress := true; progress; {
		progress = false
		for i := 0; i < len(cur.Ops); {
			c := dropOps(cur, map[int]bool{i: true})
			if len(c.Ops) < len(cur.Ops) && test(c) {
				cur = c
				progress = true
			} else {
				i++
			}
		}
	}
	// 2. faults
	for i := 0; i < len(cur.Faults); {
		c := cur.Clone()
		c.Faults = append(c.Faults[:i:i], c.Faults[i+1:]...)
		if test(c) {
			cur = c
		} else {
			i++
		}
	}
	for i := range cur.Faults {
		f := cur.Faults[i]
		if f.To < 0 || f.To > f.From+1 {
			c := cur.Clone()
			c.Faults[i].To = f.From + 1
			if test(c) {
				cur = c
			}
		}
		if cur.Faults[i].Kind != FaultErr {
			c := cur.Clone()
			c.Faults[i].Kind = FaultErr
			if test(c) {
				cur = c
			}
		}
	}
	// 3. function specs
	for fi := range cur.Funcs {
		if !fnUsed(cur, fi) {
			continue
		}
		for _, mut := range specMutations(&cur.Funcs[fi]) {
			c := cur.Clone()
			c.Funcs[fi] = mut
			if test(c) {
				cur = c
			}
		}
		// repeat once: dropping one parameter may enable dropping another
		for _, mut := range specMutations(&cur.Funcs[fi]) {
			c := cur.Clone()
			c.Funcs[fi] = mut
			if test(c) {
				cur = c
			}
		}
	}
	// 4. config
	for _, mut := range []func(*Config){
		func(c *Config) { c.Recover = false },
		func(c *Config) { c.Defer = false },
		func(c *Config) { c.PanicKind = 0 },
		func(c *Config) { c.ValMask = 0 },
		func(c *Config) { c.AltMask = 0 },
		func(c *Config) { c.OptNoise = false },
	} {
		c := cur.Clone()
		mut(&c.Cfg)
		if !reflect.DeepEqual(c.Cfg, cur.Cfg) && test(c) {
			cur = c
		}
	}
	// 5. one more pass of single-op removal after spec simplification
	for i := 0; i < len(cur.Ops); {
		c := dropOps(cur, map[int]bool{i: true})
		if len(c.Ops) < len(cur.Ops) && test(c) {
			cur = c
		} else {
			i++
		}
	}
	if c := Compact(cur); test(c) || tries >= budget && hasClass(eval(c), prop, class) {
		return c
	}
	return cur
}

func fnUsed(h *History, fi int) bool {
	for _, o := range h.Ops {
		if (o.Kind == OpProvide || o.Kind == OpDecorate || o.Kind == OpInvoke) && o.Fn == fi {
			return true
		}
	}
	return false
}

func deepCopyFunc(f *Func) Func {
	b, _ := json.Marshal(f)
	var c Func
	json.Unmarshal(b, &c)
	return c
}

// specMutations lists simpler variants of a function spec.
func specMutations(f *Func) []Func {
	var out []Func
	add := func(m func(c *Func) bool) {
		c := deepCopyFunc(f)
		if m(&c) {
			out = append(out, c)
		}
	}
	add(func(c *Func) bool { ok := c.Callback; c.Callback = false; return ok })
	add(func(c *Func) bool { ok := c.Info; c.Info = false; return ok })
	add(func(c *Func) bool { ok := c.LocPC; c.LocPC = false; return ok })
	add(func(c *Func) bool { ok := c.ReuseInfo; c.ReuseInfo = false; return ok })
	add(func(c *Func) bool { ok := c.Export; c.Export = false; return ok })
	add(func(c *Func) bool { ok := c.OptNoise; c.OptNoise = false; return ok })
	add(func(c *Func) bool { ok := c.DurNs != 0; c.DurNs = 0; return ok })
	if f.Cat >= 0 {
		// the signature of a declared catalogue function is fixed
		return out
	}
	// drop each leaf parameter
	nl := len(f.LeafParams())
	for i := 0; i < nl; i++ {
		i := i
		add(func(c *Func) bool { c.Params = dropLeafParam(c.Params, i); return true })
	}
	nr := len(f.LeafResults())
	if nr > 1 {
		for i := 0; i < nr; i++ {
			i := i
			add(func(c *Func) bool { c.Results = dropLeafResult(c.Results, i); return len(c.Results) > 0 })
		}
	}
	add(func(c *Func) bool { ok := c.Variadic; c.Variadic = false; return ok })
	add(func(c *Func) bool { ok := len(c.OptAs) > 0; c.OptAs = nil; return ok })
	add(func(c *Func) bool { ok := c.ErrFirst; c.ErrFirst = false; return ok })
	add(func(c *Func) bool { ok := c.ErrAt > 0; c.ErrAt = 0; return ok })
	add(func(c *Func) bool { ok := c.ErrExtra > 0; c.ErrExtra = 0; return ok })
	add(func(c *Func) bool { ok := c.ErrLike; c.ErrLike = false; return ok })
	add(func(c *Func) bool { ok := c.Reenter; c.Reenter = false; return ok })
	add(func(c *Func) bool { ok := c.ThenProvide > 0; c.ThenProvide = 0; return ok })
	add(func(c *Func) bool {
		ok := c.HasErr
		c.HasErr = false
		c.ErrFirst = false
		c.ErrAt = 0
		c.ErrExtra = 0
		c.ErrLike = false
		return ok
	})
	// flatten parameter objects into positional parameters where legal
	add(func(c *Func) bool {
		lp := c.LeafParams()
		var ps []Param
		for _, p := range lp {
			if p.Key.IsGroup() || p.Key.Name != "" || p.Opt {
				return false
			}
			ps = append(ps, Param{Kind: PSingle, T: p.Key.T})
		}
		if len(ps) == len(c.Params) {
			same := true
			for _, p := range c.Params {
				if p.Kind == PObj {
					same = false
				}
			}
			if same {
				return false
			}
		}
		c.Params = ps
		return true
	})
	// un-optional, un-soft
	for i := 0; i < nl; i++ {
		i := i
		add(func(c *Func) bool {
			return mutLeafParam(c.Params, i, func(p *Param) bool { ok := p.Opt; p.Opt = false; return ok })
		})
		add(func(c *Func) bool {
			return mutLeafParam(c.Params, i, func(p *Param) bool { ok := p.Soft; p.Soft = false; return ok })
		})
		add(func(c *Func) bool {
			return mutLeafParam(c.Params, i, func(p *Param) bool { ok := p.NamedSlice; p.NamedSlice = false; return ok })
		})
	}
	return out
}

func dropLeafParam(ps []Param, idx int) []Param {
	k := 0
	var walk func(ps []Param) []Param
	walk = func(ps []Param) []Param {
		var out []Param
		for _, p := range ps {
			if p.Kind == PObj {
				p.Fields = walk(p.Fields)
				if len(p.Fields) > 0 {
					out = append(out, p)
				}
				continue
			}
			if k != idx {
				out = append(out, p)
			}
			k++
		}
		return out
	}
	return walk(ps)
}

func mutLeafParam(ps []Param, idx int, m func(*Param) bool) bool {
	k := 0
	done := false
	var walk func(ps []Param)
	walk = func(ps []Param) {
		for i := range ps {
			if ps[i].Kind == PObj {
				walk(ps[i].Fields)
				continue
			}
			if k == idx {
				done = m(&ps[i])
			}
			k++
		}
	}
	walk(ps)
	return done
}

func dropLeafResult(rs []Result, idx int) []Result {
	k := 0
	var walk func(rs []Result) []Result
	walk = func(rs []Result) []Result {
		var out []Result
		for _, r := range rs {
			if r.Kind == RObj {
				r.Fields = walk(r.Fields)
				if len(r.Fields) > 0 {
					out = append(out, r)
				}
				continue
			}
			if k != idx {
				out = append(out, r)
			}
			k++
		}
		return out
	}
	return walk(rs)
}

// Compact drops unused function specs and renumbers the rest.
func Compact(h *History) *History {
	c := h.Clone()
	remap := map[int]int{}
	var funcs []Func
	for i := range c.Ops {
		o := &c.Ops[i]
		if o.Kind != OpProvide && o.Kind != OpDecorate && o.Kind != OpInvoke {
			continue
		}
		if _, ok := remap[o.Fn]; !ok {
			remap[o.Fn] = len(funcs)
			f := deepCopyFunc(&h.Funcs[o.Fn])
			f.ID = len(funcs)
			funcs = append(funcs, f)
		}
		o.Fn = remap[o.Fn]
	}
	// constructors registered from inside an invoked function travel with it
	for i := 0; i < len(funcs); i++ {
		if t := funcs[i].ThenProvide - 1; t >= 0 && t < len(h.Funcs) {
			if _, ok := remap[t]; !ok {
				remap[t] = len(funcs)
				f := deepCopyFunc(&h.Funcs[t])
				f.ID = len(funcs)
				funcs = append(funcs, f)
			}
			funcs[i].ThenProvide = remap[t] + 1
		}
	}
	var faults []Fault
	for _, f := range c.Faults {
		if id, ok := remap[f.Fn]; ok {
			f.Fn = id
			faults = append(faults, f)
		}
	}
	c.Funcs, c.Faults = funcs, faults
	return c
}
