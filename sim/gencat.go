package sim

import (
	_ "embed"
	"encoding/json"
	"flag"
	"fmt"
	"os"
	"strings"
)

// The catalogue's specs are frozen as data (catalog_specs.json, written by
// `digsim gencat -freeze`): later changes to the seeded generator must not
// renumber the declared functions, or replay files that name them would stop
// replaying. catalog_gen.go is derived from this file at every build.
//
//go:embed catalog_specs.json
var frozenCatalog []byte

func FrozenCatalog() []Func {
	var fs []Func
	if err := json.Unmarshal(frozenCatalog, &fs); err != nil {
		panic("catalog_specs.json: " + err.Error())
	}
	return append(fs, chainSpecs(len(fs))...)
}

// chainSpecs: behind the frozen, seeded part of the catalogue comes one small
// declared constructor for every ordered pair of distinct single keys,
// func(a) (b[, error]). The seeded part is ranked (a constructor mostly
// consumes types below the ones it produces), which bounds the length of a
// dependency path among declared functions by the number of types; with these
// links the deep-chain template can build paths of any length (every key once
// per scope level). A pure function of nothing: no generator change renumbers it.
func chainSpecs(base int) []Func {
	var keys []Key
	for t := 0; t < 6; t++ {
		for _, n := range []string{"", "n1", "n2"} {
			keys = append(keys, Key{T: t, Name: n})
		}
	}
	var out []Func
	for _, a := range keys {
		for _, b := range keys {
			if a == b {
				continue
			}
			id := base + len(out)
			p := Param{Kind: PSingle, T: a.T, Name: a.Name}
			if a.Name != "" {
				p = Param{Kind: PObj, Fields: []Param{p}}
			}
			r := Result{Kind: RSingle, T: b.T, Name: b.Name}
			if b.Name != "" {
				r = Result{Kind: RObj, Fields: []Result{r}}
			}
			out = append(out, Func{ID: id, Cat: id, Role: RoleCtor, Params: []Param{p}, Results: []Result{r}, HasErr: len(out)%3 != 2})
		}
	}
	return out
}

// The catalogue: declared Go functions generated from seeded specs. They are
// needed wherever dig identifies a function by its code pointer (ProvideInfo.ID,
// dot.CtorID in Visualize, CallbackInfo.Name): every reflect.MakeFunc value
// shares one stub address.

const (
	catCtors = 360
	catDecs  = 90
	catInvs  = 150
	catChain = 18 * 17 // chainSpecs, behind the three seeded ranges
)

// CatalogSpecs derives the catalogue's function specs from a seed.
func CatalogSpecs(seed int64) []Func {
	r := NewRng(mix64(seed, 0xca7a106))
	g := &genCtx{r: r}
	g.ft = Feat{NT: 6, Names: []string{"n1", "n2"}, Groups: []string{"g1", "g2"}, Objects: true, Optional: true, Soft: true,
		Flatten: true, Variadic: true, PVariadic: 0.1, MaxParams: 3, PAvail: 0, PDup: 1, PErrFirst: 0.12, DecoIntroduce: true, GroupDecs: true, Decorators: true}
	g.h = &History{}
	g.m = NewModel(false)
	var out []Func
	for i := 0; i < catCtors; i++ {
		g.ft.Objects = i%4 != 0
		g.ft.Wild = 0
		if i%7 == 3 {
			g.ft.Wild = 1 // a few rank-ignoring constructors so that cycles can arise among declared functions
		}
		f := *g.genCtor(0)
		f.OptAs, f.Export, f.Callback, f.Info = nil, false, false, false
		out = append(out, f)
	}
	g.ft.Objects = true
	for i := 0; i < catDecs; i++ {
		// decorators need something to decorate: draw keys freely
		f := g.genDecorator(0)
		if f == nil {
			i--
			continue
		}
		c := *f
		c.Callback, c.Info = false, false
		out = append(out, c)
	}
	for i := 0; i < catInvs; i++ {
		f := *g.genInvoke(0)
		f.Info = false
		out = append(out, f)
	}
	// a share of the parameter objects get an unexported field (ignored by
	// dig on request): only declared functions can have one
	var hide func(ps []Param)
	hide = func(ps []Param) {
		for i := range ps {
			if ps[i].Kind == PObj {
				if r.P(0.2) {
					ps[i].Hidden = 1 + r.Intn(len(ps[i].Fields)+1)
					if r.P(0.3) {
						ps[i].Hidden = -1
					}
				} else if r.P(0.12) {
					ps[i].AnonVal = 1 + r.Intn(NumK)
				}
				hide(ps[i].Fields)
			}
		}
	}
	for i := range out {
		out[i].ID = i
		out[i].Cat = i
		out[i].DurNs = 0
		hide(out[i].Params)
	}
	return out
}

func goType(t int) string {
	if IsIface(t) {
		return fmt.Sprintf("I%d", t-TIface)
	}
	return fmt.Sprintf("*K%d", t)
}

type catWriter struct {
	b     strings.Builder
	types strings.Builder
	n     int
}

func (w *catWriter) paramGoType(fn int, p Param, path string) string {
	switch p.Kind {
	case PSingle:
		return goType(p.T)
	case PGroup:
		if p.NamedSlice && !IsIface(p.T) {
			return fmt.Sprintf("KS%d", p.T)
		}
		return "[]" + goType(p.T)
	}
	name := fmt.Sprintf("CatIn%d_%s", fn, path)
	var sb strings.Builder
	if p.AnonVal > 0 {
		// an anonymous plain struct in front of the dig.In embed
		fmt.Fprintf(&sb, "type %s struct {\n\tV%d `optional:\"true\"`\n\tdig.In\n", name, p.AnonVal-1)
	} else if p.Hidden < 0 {
		// the unexported field is declared before the dig.In embed
		fmt.Fprintf(&sb, "type %s struct {\n\thiddenFirst *K0\n\tdig.In `ignore-unexported:\"true\"`\n", name)
	} else if p.Hidden > 0 {
		fmt.Fprintf(&sb, "type %s struct {\n\tdig.In `ignore-unexported:\"true\"`\n", name)
	} else {
		fmt.Fprintf(&sb, "type %s struct {\n\tdig.In\n", name)
	}
	for i, f := range p.Fields {
		if p.Hidden == i+1 {
			fmt.Fprintf(&sb, "\thidden%d *K0\n", i)
		}
		tag := string(paramTag(f))
		ft := w.paramGoType(fn, f, fmt.Sprintf("%s_%d", path, i))
		if tag != "" {
			fmt.Fprintf(&sb, "\tF%d %s `%s`\n", i, ft, tag)
		} else {
			fmt.Fprintf(&sb, "\tF%d %s\n", i, ft)
		}
	}
	if p.Hidden > len(p.Fields) {
		sb.WriteString("\thiddenLast *K0\n")
	}
	sb.WriteString("}\n\n")
	w.types.WriteString(sb.String())
	return name
}

func (w *catWriter) resultGoType(f *Func, r Result, path string, top bool) string {
	switch r.Kind {
	case RSingle:
		if top && f.Role == RoleCtor && f.OptGroup != "" && f.OptFlatten {
			return "[]" + goType(r.T)
		}
		return goType(r.T)
	case RGroup:
		if r.Flatten || f.Role == RoleDec {
			return "[]" + goType(r.T)
		}
		return goType(r.T)
	}
	name := fmt.Sprintf("CatOut%d_%s", f.ID, path)
	var sb strings.Builder
	fmt.Fprintf(&sb, "type %s struct {\n\tdig.Out\n", name)
	for i, fr := range r.Fields {
		tag := string(resultTag(fr))
		ft := w.resultGoType(f, fr, fmt.Sprintf("%s_%d", path, i), false)
		if tag != "" {
			fmt.Fprintf(&sb, "\tF%d %s `%s`\n", i, ft, tag)
		} else {
			fmt.Fprintf(&sb, "\tF%d %s\n", i, ft)
		}
	}
	sb.WriteString("}\n\n")
	w.types.WriteString(sb.String())
	return name
}

func (w *catWriter) fn(f *Func) {
	var params, args, rets, conv []string
	for i, p := range f.Params {
		params = append(params, fmt.Sprintf("p%d %s", i, w.paramGoType(f.ID, p, fmt.Sprint(i))))
		args = append(args, fmt.Sprintf("reflect.ValueOf(&p%d).Elem()", i))
	}
	if f.Variadic {
		params = append(params, "_ ...string")
	}
	for k, x := range f.Layout() {
		if x < 0 {
			rets = append(rets, "error")
			conv = append(conv, fmt.Sprintf("catErr(out[%d])", k))
			continue
		}
		t := w.resultGoType(f, f.Results[x], fmt.Sprint(x), true)
		rets = append(rets, t)
		conv = append(conv, fmt.Sprintf("out[%d].Interface().(%s)", k, t))
	}
	fmt.Fprintf(&w.b, "func Cat%d(%s) (%s) {\n", f.ID, strings.Join(params, ", "), strings.Join(rets, ", "))
	if len(rets) == 0 {
		fmt.Fprintf(&w.b, "\tcatCall(%d, []reflect.Value{%s})\n}\n\n", f.ID, strings.Join(args, ", "))
		return
	}
	fmt.Fprintf(&w.b, "\tout := catCall(%d, []reflect.Value{%s})\n\treturn %s\n}\n\n", f.ID, strings.Join(args, ", "), strings.Join(conv, ", "))
}

func gencatMain(args []string) int {
	fs := flag.NewFlagSet("gencat", flag.ExitOnError)
	seed := fs.Int64("seed", 1, "")
	out := fs.String("o", "catalog_gen.go", "")
	freeze := fs.String("freeze", "", "write the specs drawn from -seed to this JSON file and stop")
	fs.Parse(args)
	if *freeze != "" {
		b, err := json.MarshalIndent(CatalogSpecs(*seed), "", " ")
		if err == nil {
			err = os.WriteFile(*freeze, append(b, '\n'), 0o644)
		}
		if err != nil {
			fmt.Fprintln(os.Stderr, err)
			return 2
		}
		return 0
	}
	specs := FrozenCatalog()
	w := &catWriter{}
	for i := range specs {
		w.fn(&specs[i])
	}
	var sb strings.Builder
	sb.WriteString("// Code generated by `digsim gencat`. DO NOT EDIT.\n\npackage sim\n\nimport (\n\t\"reflect\"\n\n\t\"go.uber.org/dig\"\n)\n\n")
	fmt.Fprintf(&sb, "const catSeed = %d\n\n", *seed)
	sb.WriteString(w.types.String())
	sb.WriteString(w.b.String())
	sb.WriteString("func init() {\n\tcatFns = []interface{}{\n")
	for i := range specs {
		fmt.Fprintf(&sb, "\t\tCat%d,\n", i)
	}
	sb.WriteString("\t}\n}\n\nvar _ = dig.In{}\n")
	if err := os.WriteFile(*out, []byte(sb.String()), 0o644); err != nil {
		fmt.Fprintln(os.Stderr, err)
		return 2
	}
	fmt.Printf("wrote %s: %d functions\n", *out, len(specs))
	return 0
}
