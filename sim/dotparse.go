package sim

import (
	"fmt"
	"strings"
)

// A small parser for the DOT language (the subset dot(1) accepts that
// Visualize can emit is irrelevant: this implements the grammar itself --
// graph / subgraph / node / edge / attribute statements, quoted strings with
// escapes, and HTML-like strings, whose content must be well-formed markup).

type DotAttrs map[string]string

type DotNode struct {
	ID      string
	Attrs   DotAttrs
	Cluster int // index into DotGraph.Clusters, -1 top level
	Order   int
}

type DotEdge struct {
	From, To string
	Attrs    DotAttrs
	Order    int
}

type DotCluster struct {
	Name  string
	Attrs DotAttrs // label, color set inside the subgraph
	Nodes []int    // indices into DotGraph.Nodes, in order of appearance
}

type DotGraph struct {
	Nodes    []DotNode
	Edges    []DotEdge
	Clusters []DotCluster
	Attrs    DotAttrs
}

type dotTok struct {
	kind string // id, str, html, punct, eof
	val  string
	pos  int
}

type dotLexer struct {
	s   string
	pos int
}

func (l *dotLexer) next() (dotTok, error) {
	s := l.s
	for l.pos < len(s) {
		c := s[l.pos]
		if c == ' ' || c == '\t' || c == '\n' || c == '\r' {
			l.pos++
			continue
		}
		if c == '/' && l.pos+1 < len(s) && s[l.pos+1] == '/' {
			for l.pos < len(s) && s[l.pos] != '\n' {
				l.pos++
			}
			continue
		}
		if c == '/' && l.pos+1 < len(s) && s[l.pos+1] == '*' {
			end := strings.Index(s[l.pos+2:], "*/")
			if end < 0 {
				return dotTok{}, fmt.Errorf("offset %d: unterminated comment", l.pos)
			}
			l.pos += 2 + end + 2
			continue
		}
		if c == '#' && (l.pos == 0 || s[l.pos-1] == '\n') {
			// a line beginning with '#' is preprocessor output and ignored
			for l.pos < len(s) && s[l.pos] != '\n' {
				l.pos++
			}
			continue
		}
		break
	}
	if l.pos >= len(s) {
		return dotTok{kind: "eof", pos: l.pos}, nil
	}
	start := l.pos
	c := s[l.pos]
	switch {
	case c == '"':
		l.pos++
		var b strings.Builder
		for {
			if l.pos >= len(s) {
				return dotTok{}, fmt.Errorf("offset %d: unterminated string", start)
			}
			ch := s[l.pos]
			if ch == '\\' && l.pos+1 < len(s) {
				b.WriteByte(ch)
				b.WriteByte(s[l.pos+1])
				l.pos += 2
				continue
			}
			if ch == '"' {
				l.pos++
				break
			}
			b.WriteByte(ch)
			l.pos++
		}
		return dotTok{kind: "str", val: b.String(), pos: start}, nil
	case c == '<':
		depth := 0
		for {
			if l.pos >= len(s) {
				return dotTok{}, fmt.Errorf("offset %d: unterminated HTML string", start)
			}
			ch := s[l.pos]
			if ch == '<' {
				depth++
			} else if ch == '>' {
				depth--
				if depth == 0 {
					l.pos++
					break
				}
			}
			l.pos++
		}
		inner := s[start+1 : l.pos-1]
		if err := checkHTMLLabel(inner); err != nil {
			return dotTok{}, fmt.Errorf("offset %d: HTML-like label %q: %v", start, inner, err)
		}
		return dotTok{kind: "html", val: inner, pos: start}, nil
	case c == '-' && l.pos+1 < len(s) && (s[l.pos+1] == '>' || s[l.pos+1] == '-'):
		l.pos += 2
		return dotTok{kind: "punct", val: s[start:l.pos], pos: start}, nil
	case strings.ContainsRune("{}[];,=:", rune(c)):
		l.pos++
		return dotTok{kind: "punct", val: string(c), pos: start}, nil
	case isIDChar(c) || c == '-' || c == '.':
		for l.pos < len(s) && (isIDChar(s[l.pos]) || s[l.pos] == '.' || (s[l.pos] == '-' && l.pos == start)) {
			l.pos++
		}
		return dotTok{kind: "id", val: s[start:l.pos], pos: start}, nil
	}
	return dotTok{}, fmt.Errorf("offset %d: unexpected character %q", start, c)
}

func isIDChar(c byte) bool {
	return c == '_' || (c >= 'a' && c <= 'z') || (c >= 'A' && c <= 'Z') || (c >= '0' && c <= '9') || c >= 0x80
}

// checkHTMLLabel validates the content of an HTML-like label: a sequence of
// text and elements; text may not contain bare '<', '>' or '&'.
func checkHTMLLabel(s string) error {
	known := map[string]bool{"BR": true, "FONT": true, "B": true, "I": true, "U": true, "O": true, "SUB": true, "SUP": true, "S": true,
		"TABLE": true, "TR": true, "TD": true, "IMG": true, "HR": true, "VR": true}
	var stack []string
	i := 0
	for i < len(s) {
		switch s[i] {
		case '<':
			j := strings.IndexByte(s[i:], '>')
			if j < 0 {
				return fmt.Errorf("unterminated tag")
			}
			tag := s[i+1 : i+j]
			i += j + 1
			closing := strings.HasPrefix(tag, "/")
			selfClosing := strings.HasSuffix(tag, "/")
			tag = strings.TrimSuffix(strings.TrimPrefix(tag, "/"), "/")
			fields := strings.Fields(tag)
			if len(fields) == 0 {
				return fmt.Errorf("empty tag")
			}
			name := strings.ToUpper(fields[0])
			if !known[name] {
				return fmt.Errorf("unknown element <%s>", fields[0])
			}
			for _, a := range fields[1:] {
				if !strings.Contains(a, "=") {
					return fmt.Errorf("malformed attribute %q in <%s>", a, name)
				}
			}
			switch {
			case closing:
				if len(stack) == 0 || stack[len(stack)-1] != name {
					return fmt.Errorf("unbalanced </%s>", name)
				}
				stack = stack[:len(stack)-1]
			case selfClosing:
			default:
				stack = append(stack, name)
			}
		case '>':
			return fmt.Errorf("bare '>' in text")
		case '&':
			j := strings.IndexByte(s[i:], ';')
			if j < 0 || j > 10 {
				return fmt.Errorf("bare '&' in text")
			}
			i += j + 1
		default:
			i++
		}
	}
	if len(stack) > 0 {
		return fmt.Errorf("unclosed <%s>", stack[len(stack)-1])
	}
	return nil
}

type dotParser struct {
	lx   *dotLexer
	tok  dotTok
	g    *DotGraph
	nidx map[string]int
	ord  int
}

func (p *dotParser) advance() error {
	t, err := p.lx.next()
	if err != nil {
		return err
	}
	p.tok = t
	return nil
}

func (p *dotParser) expectPunct(v string) error {
	if p.tok.kind != "punct" || p.tok.val != v {
		return fmt.Errorf("offset %d: expected %q, found %s %q", p.tok.pos, v, p.tok.kind, p.tok.val)
	}
	return p.advance()
}

func (p *dotParser) isID() bool {
	return p.tok.kind == "id" || p.tok.kind == "str" || p.tok.kind == "html"
}

// ParseDot parses a DOT document.
func ParseDot(src string) (*DotGraph, error) {
	p := &dotParser{lx: &dotLexer{s: src}, g: &DotGraph{Attrs: DotAttrs{}}, nidx: map[string]int{}}
	if err := p.advance(); err != nil {
		return nil, err
	}
	if p.tok.kind == "id" && strings.EqualFold(p.tok.val, "strict") {
		if err := p.advance(); err != nil {
			return nil, err
		}
	}
	if p.tok.kind != "id" || !(strings.EqualFold(p.tok.val, "digraph") || strings.EqualFold(p.tok.val, "graph")) {
		return nil, fmt.Errorf("offset %d: expected 'digraph'", p.tok.pos)
	}
	if err := p.advance(); err != nil {
		return nil, err
	}
	if p.isID() {
		if err := p.advance(); err != nil {
			return nil, err
		}
	}
	if err := p.stmtList(-1); err != nil {
		return nil, err
	}
	if p.tok.kind != "eof" {
		return nil, fmt.Errorf("offset %d: trailing input %q", p.tok.pos, p.tok.val)
	}
	return p.g, nil
}

func (p *dotParser) stmtList(cluster int) error {
	if err := p.expectPunct("{"); err != nil {
		return err
	}
	for {
		if p.tok.kind == "punct" && p.tok.val == "}" {
			return p.advance()
		}
		if p.tok.kind == "eof" {
			return fmt.Errorf("offset %d: unexpected end of input, missing '}'", p.tok.pos)
		}
		if p.tok.kind == "punct" && p.tok.val == ";" {
			if err := p.advance(); err != nil {
				return err
			}
			continue
		}
		if err := p.stmt(cluster); err != nil {
			return err
		}
	}
}

func (p *dotParser) attrList() (DotAttrs, error) {
	attrs := DotAttrs{}
	for p.tok.kind == "punct" && p.tok.val == "[" {
		if err := p.advance(); err != nil {
			return nil, err
		}
		for !(p.tok.kind == "punct" && p.tok.val == "]") {
			if !p.isID() {
				return nil, fmt.Errorf("offset %d: expected attribute name, found %s %q", p.tok.pos, p.tok.kind, p.tok.val)
			}
			k := p.tok.val
			if err := p.advance(); err != nil {
				return nil, err
			}
			if err := p.expectPunct("="); err != nil {
				return nil, err
			}
			if !p.isID() {
				return nil, fmt.Errorf("offset %d: expected attribute value, found %s %q", p.tok.pos, p.tok.kind, p.tok.val)
			}
			attrs[k] = p.tok.val
			if err := p.advance(); err != nil {
				return nil, err
			}
			if p.tok.kind == "punct" && (p.tok.val == "," || p.tok.val == ";") {
				if err := p.advance(); err != nil {
					return nil, err
				}
			}
		}
		if err := p.advance(); err != nil {
			return nil, err
		}
	}
	return attrs, nil
}

func (p *dotParser) stmt(cluster int) error {
	if p.tok.kind == "id" && strings.EqualFold(p.tok.val, "subgraph") {
		if err := p.advance(); err != nil {
			return err
		}
		name := ""
		if p.isID() {
			name = p.tok.val
			if err := p.advance(); err != nil {
				return err
			}
		}
		p.g.Clusters = append(p.g.Clusters, DotCluster{Name: name, Attrs: DotAttrs{}})
		return p.stmtList(len(p.g.Clusters) - 1)
	}
	if p.tok.kind == "punct" && p.tok.val == "{" {
		return p.stmtList(cluster)
	}
	if !p.isID() {
		return fmt.Errorf("offset %d: expected a statement, found %s %q", p.tok.pos, p.tok.kind, p.tok.val)
	}
	id := p.tok.val
	idKind := p.tok.kind
	if err := p.advance(); err != nil {
		return err
	}
	// ID '=' ID
	if p.tok.kind == "punct" && p.tok.val == "=" {
		if err := p.advance(); err != nil {
			return err
		}
		if !p.isID() {
			return fmt.Errorf("offset %d: expected a value after '='", p.tok.pos)
		}
		if cluster >= 0 {
			p.g.Clusters[cluster].Attrs[id] = p.tok.val
		} else {
			p.g.Attrs[id] = p.tok.val
		}
		return p.advance()
	}
	// attr_stmt
	if idKind == "id" && (id == "graph" || id == "node" || id == "edge") && p.tok.kind == "punct" && p.tok.val == "[" {
		_, err := p.attrList()
		return err
	}
	// edge_stmt
	if p.tok.kind == "punct" && (p.tok.val == "->" || p.tok.val == "--") {
		from := id
		var tos []string
		for p.tok.kind == "punct" && (p.tok.val == "->" || p.tok.val == "--") {
			if err := p.advance(); err != nil {
				return err
			}
			if !p.isID() {
				return fmt.Errorf("offset %d: expected edge target", p.tok.pos)
			}
			tos = append(tos, p.tok.val)
			if err := p.advance(); err != nil {
				return err
			}
		}
		attrs, err := p.attrList()
		if err != nil {
			return err
		}
		for _, to := range tos {
			p.ord++
			p.g.Edges = append(p.g.Edges, DotEdge{From: from, To: to, Attrs: attrs, Order: p.ord})
			from = to
		}
		return nil
	}
	// node_stmt
	attrs, err := p.attrList()
	if err != nil {
		return err
	}
	p.ord++
	p.g.Nodes = append(p.g.Nodes, DotNode{ID: id, Attrs: attrs, Cluster: cluster, Order: p.ord})
	if cluster >= 0 {
		p.g.Clusters[cluster].Nodes = append(p.g.Clusters[cluster].Nodes, len(p.g.Nodes)-1)
	}
	return nil
}
