#!/usr/bin/env python3
"""Regenerates MANIFEST.json from the table below (kept as a script so that the
manifest stays consistent while checks are added)."""
import json, sys
CLAIMED = json.load(open('/verif/claims.json'))
props = [json.loads(l) for l in open('/verif/properties.jsonl')]
checks, na = [], []
for p in props:
    pid = p['id']
    c = CLAIMED.get(pid)
    if not c or not c.get('claimed'):
        na.append({"property_id": pid, "reason": (c or {}).get('reason', 'check not built yet in this session; see DESIGN.md §5 for the plan')})
        continue
    checks.append({
        "property_id": pid,
        "quick_cmd": f"bin/check {pid} quick",
        "thorough_cmd": f"bin/check {pid} thorough",
        "evidence_file": f"evidence/{pid}.json",
        "replay_cmd_template": "bin/check replay {path}",
        "engine": "digsim",
        "level_claimed": {"category": "exploration", "text": c['text'], "design_ref": c.get('design_ref', 'DESIGN.md §5 ' + pid)},
        "level_note": c['note'],
        "technique": c.get('technique', "deterministic simulation with environment fault injection, seeded search over histories, reference-model / twin-run oracles"),
    })
m = {
    "version": 1,
    "setup_cmd": "bin/check build",
    "hooks": {
        "guard": "verif",
        "enable": "go build -tags verif (see bin/check)",
        "baseline_off_cmd": "cd /repo && go test -mod=mod -json -vet=off -count=1 -timeout 25m ./...",
        "source_commits": json.load(open('/verif/hook_commits.json')),
        "add_only": True,
    },
    "engines": [{"name": "digsim", "path": "sim/", "serves_properties": [c['property_id'] for c in checks],
                 "kind_free_text": "single-process deterministic simulator: seeded history generator, simulated environment (user functions, mock clock, seeded shuffle), fault plan, event log, reference model, twin runs, ddmin minimiser, process-isolated workers with crash journal"}],
    "checks": checks,
    "not_applicable": na,
    "notes": "All checks: exit 0 clean, 1 with VIOLATION lines, 2 harness trouble (never a VIOLATION). VERIF_SEED selects the seed, VERIF_BUDGET_S the wall-clock safety net. known_findings.json lists recorded/fixed defects.",
}
json.dump(m, open('/verif/MANIFEST.json', 'w'), indent=1)
print(len(checks), "claimed;", len(na), "not claimed")
